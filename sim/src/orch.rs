//! Orchestration: worker processes, aggregation, cross-build comparison, determinism recheck,
//! minimisation, replay files, known findings, evidence.

use std::collections::{BTreeMap, BTreeSet, HashMap};
use std::io::{BufRead, BufReader, Write};
use std::path::{Path, PathBuf};
use std::process::{Child, Command, Stdio};
use std::sync::mpsc::{channel, RecvTimeoutError};
use std::time::{Duration, Instant};

use serde_json::{json, Value};

use crate::exec::{self, RunOutcome, Violation, FAULT_KINDS, PROBE_NAMES, PROPS};
use crate::gen;
use crate::minimise;
use crate::ops::{ops_from_json, ops_to_json, Config, Op};
use crate::rng::Fnv;
use crate::{flavour, Args, DEFAULT_SEED};

const VERIF_DIR: &str = "/verif";
/// a worker that stays silent this long inside one run is taken to hang (a normal run takes
/// milliseconds to a few seconds; the slack is there for heavily loaded machines)
const HANG_SECS: u64 = 300;
/// a single op list executed alone in its own process normally takes well under two seconds
const EXEC_HANG_SECS: u64 = 150;

fn verif_dir() -> PathBuf {
    PathBuf::from(std::env::var("LSIM_VERIF_DIR").unwrap_or_else(|_| VERIF_DIR.to_string()))
}

fn exe_for(fl: &str) -> PathBuf {
    let (var, default) = match fl {
        "ship" => ("LSIM_SHIP", "target/ship/release/lsim"),
        _ => ("LSIM_CHECKED", "target/checked/checked/lsim"),
    };
    std::env::var(var).map(PathBuf::from).unwrap_or_else(|_| verif_dir().join(default))
}

fn tmp_dir() -> PathBuf {
    let d = verif_dir().join("target").join("tmp");
    let _ = std::fs::create_dir_all(&d);
    d
}

pub fn scenarios_for(prop: &str) -> Vec<&'static str> {
    match prop {
        "C01" => vec!["hist", "registry", "replica"],
        "C06" | "C10" | "C18" => vec!["hist"],
        "C12" => vec!["hist", "registry"],
        "C07" => vec!["replica"],
        "C16" | "C17" => vec!["scratch"],
        "C19" => vec!["scratch", "hist", "registry"],
        "C20" => vec!["registry"],
        _ => vec![],
    }
}

/// Fixed run counts (not time budgets): the set of runs of a check is a function of
/// (property, tier) only, so evidence and findings are reproducible.
pub fn run_count(prop: &str, scenario: &str, tier: &str) -> u64 {
    let quick: u64 = match (prop, scenario) {
        ("C01", "hist") => 70_000,
        ("C01", "registry") => 20_000,
        ("C01", "replica") => 20_000,
        ("C06", "hist") => 24_000,
        ("C07", "replica") => 40_000,
        ("C10", "hist") => 60_000,
        ("C12", "hist") => 76_000,
        ("C12", "registry") => 16_000,
        ("C16", "scratch") => 30_000,
        ("C17", "scratch") => 40_000,
        ("C18", "hist") => 50_000,
        ("C19", "scratch") => 30_000,
        ("C19", "hist") => 30_000,
        ("C19", "registry") => 10_000,
        ("C20", "registry") => 40_000,
        _ => 1_000,
    };
    match tier {
        "thorough" => quick * 12,
        "smoke" => (quick / 40).max(200),
        _ => quick,
    }
}

fn oplist_digest(cfg: &Config, ops: &[Op]) -> u64 {
    let mut f = Fnv::new();
    f.str(&cfg.to_json().to_string());
    f.str(&ops_to_json(ops).to_string());
    f.0
}

fn violation_json(v: &Violation) -> Value {
    json!({"property": v.prop, "oracle": v.oracle, "at_op": v.at_op, "key": v.key, "observed": v.observed, "expected": v.expected, "note": v.note})
}

fn violation_from(v: &Value) -> Option<Violation> {
    Some(Violation {
        prop: v.get("property")?.as_str()?.to_string(),
        oracle: v.get("oracle")?.as_str()?.to_string(),
        at_op: v.get("at_op")?.as_u64()? as usize,
        key: v.get("key")?.as_str()?.to_string(),
        observed: v.get("observed")?.as_str()?.to_string(),
        expected: v.get("expected")?.as_str()?.to_string(),
        note: v.get("note").and_then(|x| x.as_str()).unwrap_or("").to_string(),
    })
}

// =================================================================================================
// worker

#[derive(Default)]
struct Agg {
    runs: u64,
    executed: u64,
    skipped: u64,
    evals: u64,
    searches: u64,
    searches_with_hits: u64,
    aborted_by_panic: u64,
    faults: Vec<u64>,
    probes: Vec<u64>,
    runs_with_fault: Vec<u64>,
    states: BTreeSet<u64>,
    trigrams: BTreeSet<u64>,
    nontrivial: BTreeSet<u64>,
    short_runs: u64,
    fault_free_runs: u64,
    sample_short: Option<(usize, Value)>,
    sample_long: Option<(usize, Value)>,
    sample_faulty: Option<(usize, Value)>,
}

fn sample_json(scenario: &str, run: u64, cfg: &Config, ops: &[Op], out: &RunOutcome) -> Value {
    let shown: Vec<Value> = ops.iter().take(40).map(|o| o.to_json()).collect();
    json!({"scenario": scenario, "run": run, "config": cfg.to_json(), "ops_total": ops.len(), "ops_shown": shown.len(), "ops": shown,
           "history_digest": format!("{:016x}", out.digest), "searches": out.searches, "searches_with_hits": out.searches_with_hits})
}

impl Agg {
    fn new() -> Agg {
        Agg { faults: vec![0; FAULT_KINDS.len()], probes: vec![0; 8], runs_with_fault: vec![0; FAULT_KINDS.len()], ..Default::default() }
    }
    fn add(&mut self, scenario: &str, run: u64, cfg: &Config, ops: &[Op], out: &RunOutcome, od: u64) {
        self.runs += 1;
        self.executed += out.executed as u64;
        self.skipped += out.skipped as u64;
        self.evals += out.evals;
        self.searches += out.searches;
        self.searches_with_hits += out.searches_with_hits;
        if out.stopped_by_panic.is_some() {
            self.aborted_by_panic += 1;
        }
        let mut kinds = 0;
        for i in 0..FAULT_KINDS.len() {
            self.faults[i] += out.faults[i];
            if out.faults[i] > 0 {
                self.runs_with_fault[i] += 1;
                kinds += 1;
            }
        }
        if kinds == 0 {
            self.fault_free_runs += 1;
        }
        for i in 0..8 {
            self.probes[i] += out.probes[i];
        }
        self.states.extend(out.states.iter());
        self.trigrams.extend(out.kind_trigrams.iter());
        if ops.len() <= 12 {
            self.short_runs += 1;
        }
        if out.nontrivial && out.violation.is_none() {
            self.nontrivial.insert(od);
            if self.sample_short.as_ref().map(|(n, _)| ops.len() < *n).unwrap_or(true) {
                self.sample_short = Some((ops.len(), sample_json(scenario, run, cfg, ops, out)));
            }
        }
        if self.sample_long.as_ref().map(|(n, _)| ops.len() > *n).unwrap_or(true) {
            self.sample_long = Some((ops.len(), sample_json(scenario, run, cfg, ops, out)));
        }
        if kinds > 0 && self.sample_faulty.as_ref().map(|(n, _)| kinds > *n).unwrap_or(true) {
            self.sample_faulty = Some((kinds, sample_json(scenario, run, cfg, ops, out)));
        }
    }
    fn to_json(&self) -> Value {
        let hex = |s: &BTreeSet<u64>| -> Vec<String> { s.iter().map(|x| format!("{:x}", x)).collect() };
        let samp = |s: &Option<(usize, Value)>| s.as_ref().map(|(n, v)| json!([n, v])).unwrap_or(Value::Null);
        json!({
            "runs": self.runs, "executed": self.executed, "skipped": self.skipped, "evals": self.evals,
            "searches": self.searches, "searches_with_hits": self.searches_with_hits, "aborted_by_panic": self.aborted_by_panic,
            "faults": self.faults, "probes": self.probes, "runs_with_fault": self.runs_with_fault,
            "states": hex(&self.states), "trigrams": hex(&self.trigrams), "nontrivial": hex(&self.nontrivial),
            "short_runs": self.short_runs, "fault_free_runs": self.fault_free_runs,
            "sample_short": samp(&self.sample_short), "sample_long": samp(&self.sample_long), "sample_faulty": samp(&self.sample_faulty),
        })
    }
    fn merge_json(&mut self, v: &Value) {
        let u = |k: &str| v.get(k).and_then(|x| x.as_u64()).unwrap_or(0);
        self.runs += u("runs");
        self.executed += u("executed");
        self.skipped += u("skipped");
        self.evals += u("evals");
        self.searches += u("searches");
        self.searches_with_hits += u("searches_with_hits");
        self.aborted_by_panic += u("aborted_by_panic");
        self.short_runs += u("short_runs");
        self.fault_free_runs += u("fault_free_runs");
        let arr = |k: &str| -> Vec<u64> { v.get(k).and_then(|x| x.as_array()).map(|a| a.iter().map(|x| x.as_u64().unwrap_or(0)).collect()).unwrap_or_default() };
        for (i, x) in arr("faults").iter().enumerate() {
            if i < self.faults.len() {
                self.faults[i] += x;
            }
        }
        for (i, x) in arr("runs_with_fault").iter().enumerate() {
            if i < self.runs_with_fault.len() {
                self.runs_with_fault[i] += x;
            }
        }
        for (i, x) in arr("probes").iter().enumerate() {
            if i < self.probes.len() {
                self.probes[i] += x;
            }
        }
        let set = |k: &str| -> Vec<u64> {
            v.get(k).and_then(|x| x.as_array()).map(|a| a.iter().filter_map(|x| u64::from_str_radix(x.as_str().unwrap_or(""), 16).ok()).collect()).unwrap_or_default()
        };
        self.states.extend(set("states"));
        self.trigrams.extend(set("trigrams"));
        self.nontrivial.extend(set("nontrivial"));
        let samp = |k: &str| -> Option<(usize, Value)> {
            let a = v.get(k)?.as_array()?;
            Some((a.get(0)?.as_u64()? as usize, a.get(1)?.clone()))
        };
        if let Some((n, s)) = samp("sample_short") {
            if self.sample_short.as_ref().map(|(m, _)| n < *m).unwrap_or(true) {
                self.sample_short = Some((n, s));
            }
        }
        if let Some((n, s)) = samp("sample_long") {
            if self.sample_long.as_ref().map(|(m, _)| n > *m).unwrap_or(true) {
                self.sample_long = Some((n, s));
            }
        }
        if let Some((n, s)) = samp("sample_faulty") {
            if self.sample_faulty.as_ref().map(|(m, _)| n > *m).unwrap_or(true) {
                self.sample_faulty = Some((n, s));
            }
        }
    }
}

pub fn cmd_worker(args: &Args) -> i32 {
    let prop = args.get("prop").unwrap_or("C10").to_string();
    let scenario = args.get("scenario").unwrap_or("hist").to_string();
    let seed = args.num("seed").unwrap_or(DEFAULT_SEED);
    let start = args.num("start").unwrap_or(0);
    let step = args.num("step").unwrap_or(1).max(1);
    let total = args.num("total").unwrap_or(1);
    let deadline = args.num("deadline-s").map(Duration::from_secs);
    let t0 = Instant::now();
    let mut agg = Agg::new();
    let mut r = start;
    while r < total {
        if let Some(d) = deadline {
            if t0.elapsed() > d {
                println!("T {}", r);
                break;
            }
        }
        println!("S {}", r);
        let (cfg, ops) = gen::generate(&prop, &scenario, seed, r);
        let out = exec::execute(&prop, &cfg, &ops, false);
        let od = oplist_digest(&cfg, &ops);
        println!("R {} {:016x}", r, out.digest);
        if let Some(v) = &out.violation {
            println!("V {} {}", r, violation_json(v));
        }
        agg.add(&scenario, r, &cfg, &ops, &out, od);
        r += step;
    }
    println!("E {}", agg.to_json());
    0
}

// =================================================================================================
// batches of worker processes

struct Abort {
    run: u64,
    /// the orchestrator killed the worker because it had been silent for HANG_SECS inside a run
    hang: bool,
    what: String,
    stderr: String,
}

struct Batch {
    digests: HashMap<u64, u64>,
    violations: Vec<(u64, Violation)>,
    aborts: Vec<Abort>,
    agg: Agg,
    truncated: bool,
    wall: f64,
}

enum Msg {
    Line(usize, String),
    Eof(usize),
}

struct WorkerProc {
    child: Child,
    current: Option<u64>,
    last_done: Option<u64>,
    last_activity: Instant,
    stderr_path: PathBuf,
    done: bool,
    start: u64,
    killed_for_hang: bool,
}

fn spawn_worker(exe: &Path, prop: &str, scenario: &str, seed: u64, start: u64, step: u64, total: u64, deadline_s: u64, idx: usize, tx: &std::sync::mpsc::Sender<Msg>) -> WorkerProc {
    let stderr_path = tmp_dir().join(format!("worker-{}-{}-{}.stderr", std::process::id(), idx, start));
    let errf = std::fs::File::create(&stderr_path).expect("stderr file");
    let mut child = Command::new(exe)
        .args(["worker", "--prop", prop, "--scenario", scenario])
        .args(["--seed", &seed.to_string(), "--start", &start.to_string(), "--step", &step.to_string(), "--total", &total.to_string()])
        .args(["--deadline-s", &deadline_s.to_string()])
        .stdout(Stdio::piped())
        .stderr(Stdio::from(errf))
        .stdin(Stdio::null())
        .spawn()
        .unwrap_or_else(|e| {
            eprintln!("lsim: cannot start worker {}: {}", exe.display(), e);
            std::process::exit(2)
        });
    let out = child.stdout.take().unwrap();
    let tx = tx.clone();
    std::thread::spawn(move || {
        let rd = BufReader::new(out);
        for line in rd.lines() {
            match line {
                Ok(l) => {
                    if tx.send(Msg::Line(idx, l)).is_err() {
                        return;
                    }
                }
                Err(_) => break,
            }
        }
        let _ = tx.send(Msg::Eof(idx));
    });
    WorkerProc { child, current: None, last_done: None, last_activity: Instant::now(), stderr_path, done: false, start, killed_for_hang: false }
}

fn run_batch(exe: &Path, prop: &str, scenario: &str, seed: u64, start0: u64, step0: u64, total: u64, jobs: usize, deadline_s: u64) -> Batch {
    let t0 = Instant::now();
    let (tx, rx) = channel::<Msg>();
    let mut procs: Vec<WorkerProc> = Vec::new();
    // worker j handles run indices start0 + step0*(j + jobs*k): assignment is static
    let step = step0 * jobs as u64;
    for j in 0..jobs {
        let start = start0 + step0 * j as u64;
        procs.push(spawn_worker(exe, prop, scenario, seed, start, step, total, deadline_s, j, &tx));
    }
    let mut b = Batch { digests: HashMap::new(), violations: Vec::new(), aborts: Vec::new(), agg: Agg::new(), truncated: false, wall: 0.0 };
    let mut live = jobs;
    while live > 0 {
        match rx.recv_timeout(Duration::from_millis(500)) {
            Ok(Msg::Line(i, l)) => {
                let p = &mut procs[i];
                p.last_activity = Instant::now();
                let mut it = l.splitn(3, ' ');
                match it.next() {
                    Some("S") => p.current = it.next().and_then(|x| x.parse().ok()),
                    Some("R") => {
                        let run: u64 = it.next().and_then(|x| x.parse().ok()).unwrap_or(u64::MAX);
                        let d = it.next().and_then(|x| u64::from_str_radix(x, 16).ok()).unwrap_or(0);
                        b.digests.insert(run, d);
                        p.last_done = Some(run);
                        p.current = None;
                    }
                    Some("V") => {
                        let run: u64 = it.next().and_then(|x| x.parse().ok()).unwrap_or(u64::MAX);
                        if let Some(v) = it.next().and_then(|x| serde_json::from_str::<Value>(x).ok()).and_then(|x| violation_from(&x)) {
                            b.violations.push((run, v));
                        }
                    }
                    Some("T") => b.truncated = true,
                    Some("E") => {
                        let rest: String = l[2..].to_string();
                        if let Ok(v) = serde_json::from_str::<Value>(&rest) {
                            b.agg.merge_json(&v);
                        }
                        p.done = true;
                    }
                    _ => {}
                }
            }
            Ok(Msg::Eof(i)) => {
                let status = procs[i].child.wait().ok();
                let ok = status.map(|s| s.success()).unwrap_or(false) && procs[i].done;
                let stderr = std::fs::read_to_string(&procs[i].stderr_path).unwrap_or_default();
                let _ = std::fs::remove_file(&procs[i].stderr_path);
                if ok {
                    live -= 1;
                    continue;
                }
                // the worker died: attribute it to the run it had started, then carry on after it
                let what = format!("worker process ended with {:?}", status);
                if status.and_then(|s| s.code()) == Some(2) {
                    eprintln!("lsim: worker reported a harness error:\n{}", tail(&stderr, 2000));
                    std::process::exit(2);
                }
                match procs[i].current {
                    Some(run) => {
                        b.aborts.push(Abort { run, hang: procs[i].killed_for_hang, what, stderr: tail(&stderr, 1500) });
                        let next = run + step;
                        // a handful of dead workers is evidence enough; do not keep feeding a tree that aborts or hangs
                        let cap = if prop == "C01" || prop == "C19" { 8 } else { 64 };
                        if next < total && b.aborts.len() < cap {
                            procs[i] = spawn_worker(exe, prop, scenario, seed, next, step, total, deadline_s, i, &tx);
                        } else {
                            live -= 1;
                        }
                    }
                    None => {
                        eprintln!("lsim: worker {} died outside a run ({}):\n{}", i, what, tail(&stderr, 2000));
                        std::process::exit(2);
                    }
                }
            }
            Err(RecvTimeoutError::Timeout) => {
                for p in procs.iter_mut() {
                    if p.current.is_some() && !p.done && p.last_activity.elapsed() > Duration::from_secs(HANG_SECS) {
                        let _ = p.child.kill(); // Eof follows and is handled as an abort ("hang")
                        p.killed_for_hang = true;
                        p.last_activity = Instant::now();
                    }
                }
            }
            Err(RecvTimeoutError::Disconnected) => break,
        }
    }
    let _ = procs.iter().map(|p| p.start).count();
    b.wall = t0.elapsed().as_secs_f64();
    b
}

fn tail(s: &str, n: usize) -> String {
    let cs: Vec<char> = s.chars().collect();
    if cs.len() <= n {
        s.to_string()
    } else {
        cs[cs.len() - n..].iter().collect()
    }
}

// =================================================================================================
// exec / replay (child-process execution of an explicit op list)

fn write_case(path: &Path, prop: &str, cfg: &Config, ops: &[Op], extra: Value) {
    let mut v = json!({"format": 1, "property": prop, "scenario": cfg.scenario, "config": cfg.to_json(), "ops": ops_to_json(ops)});
    if let (Some(o), Some(e)) = (v.as_object_mut(), extra.as_object()) {
        for (k, x) in e {
            o.insert(k.clone(), x.clone());
        }
    }
    let mut f = std::fs::File::create(path).expect("create case file");
    f.write_all(serde_json::to_string_pretty(&v).unwrap().as_bytes()).expect("write case file");
}

fn read_case(path: &Path) -> Result<(String, Config, Vec<Op>, Value), String> {
    let s = std::fs::read_to_string(path).map_err(|e| format!("{}: {}", path.display(), e))?;
    let v: Value = serde_json::from_str(&s).map_err(|e| e.to_string())?;
    let prop = v.get("property").and_then(|x| x.as_str()).ok_or("no property")?.to_string();
    let cfg = Config::from_json(v.get("config").ok_or("no config")?)?;
    let ops = ops_from_json(v.get("ops").ok_or("no ops")?)?;
    Ok((prop, cfg, ops, v))
}

pub fn cmd_exec(args: &Args) -> i32 {
    let path = match args.pos.get(1) {
        Some(p) => PathBuf::from(p),
        None => return 2,
    };
    let (prop, cfg, ops, _) = match read_case(&path) {
        Ok(x) => x,
        Err(e) => {
            eprintln!("lsim exec: {}", e);
            return 2;
        }
    };
    let out = exec::execute(&prop, &cfg, &ops, args.flag("log"));
    let v = json!({
        "violation": out.violation.as_ref().map(violation_json),
        "digest": format!("{:016x}", out.digest),
        "skipped": out.skipped_ix,
        "panic": out.stopped_by_panic.as_ref().map(|p| p.render()),
        "log": out.log,
    });
    println!("X {}", v);
    0
}

/// What a child execution of an op list ended like.
#[derive(Debug, Clone, PartialEq)]
enum ChildEnd {
    Result(Value),
    Died(String, String),
    Hung,
}

fn exec_child(exe: &Path, case: &Path, log: bool) -> ChildEnd {
    let mut cmd = Command::new(exe);
    cmd.arg("exec").arg(case);
    if log {
        cmd.arg("--log");
    }
    let errp = tmp_dir().join(format!("exec-{}-{}.stderr", std::process::id(), crate::rng::fnv_str(&case.display().to_string())));
    let errf = std::fs::File::create(&errp).expect("stderr file");
    let mut child = match cmd.stdout(Stdio::piped()).stderr(Stdio::from(errf)).stdin(Stdio::null()).spawn() {
        Ok(c) => c,
        Err(e) => {
            eprintln!("lsim: cannot run {}: {}", exe.display(), e);
            std::process::exit(2);
        }
    };
    let out = child.stdout.take().unwrap();
    let (tx, rx) = channel::<String>();
    std::thread::spawn(move || {
        let mut s = String::new();
        let _ = std::io::Read::read_to_string(&mut BufReader::new(out), &mut s);
        let _ = tx.send(s);
    });
    let text = match rx.recv_timeout(Duration::from_secs(EXEC_HANG_SECS)) {
        Ok(s) => s,
        Err(_) => {
            let _ = child.kill();
            let _ = child.wait();
            let _ = std::fs::remove_file(&errp);
            return ChildEnd::Hung;
        }
    };
    let status = child.wait().ok();
    let stderr = std::fs::read_to_string(&errp).unwrap_or_default();
    let _ = std::fs::remove_file(&errp);
    if let Some(line) = text.lines().find(|l| l.starts_with("X ")) {
        if let Ok(v) = serde_json::from_str::<Value>(&line[2..]) {
            return ChildEnd::Result(v);
        }
    }
    if status.and_then(|s| s.code()) == Some(2) {
        eprintln!("lsim: harness error in child:\n{}", tail(&stderr, 2000));
        std::process::exit(2);
    }
    ChildEnd::Died(format!("{:?}", status), tail(&stderr, 1500))
}

/// Target of a minimisation / replay: what "the same failure" means.
#[derive(Clone, Debug)]
enum Target {
    Miri { force_none: bool, max_ops: usize },
    Key(String),
    Death { std_precondition: bool },
    Hang,
    CrossBuild,
}

fn death_is_precondition(stderr: &str) -> bool {
    stderr.contains("unsafe precondition")
}

/// Runs the case and says whether it fails in the way `target` describes. Returns the skipped
/// op indices (for the minimiser) and a description of what was observed.
fn fails_like(prop: &str, cfg: &Config, ops: &[Op], target: &Target, tag: &str, fl: &str) -> Option<(Vec<usize>, Value)> {
    let case = tmp_dir().join(format!("case-{}-{}.json", std::process::id(), tag));
    write_case(&case, prop, cfg, ops, json!({}));
    let res = match target {
        Target::Miri { .. } => {
            let o = miri_cmd().arg("exec").arg(&case).output();
            match o {
                Ok(o) => {
                    let err = String::from_utf8_lossy(&o.stderr).to_string();
                    if err.contains("Undefined Behavior") || err.contains("error: unsupported operation") {
                        Some((Vec::new(), json!({"oracle": "C19.miri", "key": "C19.miri", "observed": tail(&err, 1200), "expected": "no undefined behaviour reported by Miri"})))
                    } else {
                        None
                    }
                }
                Err(_) => None,
            }
        }
        Target::CrossBuild => {
            let a = exec_child(&exe_for("checked"), &case, true);
            let b = exec_child(&exe_for("ship"), &case, true);
            match (&a, &b) {
                (ChildEnd::Result(x), ChildEnd::Result(y)) => {
                    if x.get("digest") != y.get("digest") {
                        let la = x.get("log").and_then(|l| l.as_array()).cloned().unwrap_or_default();
                        let lb = y.get("log").and_then(|l| l.as_array()).cloned().unwrap_or_default();
                        let k = la.iter().zip(lb.iter()).position(|(p, q)| p != q).unwrap_or(la.len().min(lb.len()));
                        let skipped = x.get("skipped").and_then(|s| s.as_array()).map(|a| a.iter().filter_map(|v| v.as_u64().map(|u| u as usize)).collect()).unwrap_or_default();
                        Some((skipped, json!({"oracle": "C01.cross_build", "key": "C01.cross_build", "at_log_line": k,
                            "observed": format!("checked build: {}", la.get(k).and_then(|v| v.as_str()).unwrap_or("<end of history>")),
                            "expected": format!("shipping build: {}", lb.get(k).and_then(|v| v.as_str()).unwrap_or("<end of history>"))})))
                    } else {
                        None
                    }
                }
                _ => None,
            }
        }
        _ => {
            let end = exec_child(&exe_for(fl), &case, false);
            match (target, end) {
                (Target::Key(k), ChildEnd::Result(v)) => {
                    let got = v.get("violation").cloned().unwrap_or(Value::Null);
                    if got.get("key").and_then(|x| x.as_str()) == Some(k.as_str()) {
                        let skipped = v.get("skipped").and_then(|s| s.as_array()).map(|a| a.iter().filter_map(|v| v.as_u64().map(|u| u as usize)).collect()).unwrap_or_default();
                        Some((skipped, got))
                    } else {
                        None
                    }
                }
                (Target::Death { std_precondition }, ChildEnd::Died(status, stderr)) => {
                    if death_is_precondition(&stderr) == *std_precondition {
                        Some((Vec::new(), json!({"oracle": "abort", "key": "abort", "observed": format!("process died: {} ; stderr: {}", status, stderr), "expected": "returns normally"})))
                    } else {
                        None
                    }
                }
                (Target::Hang, ChildEnd::Hung) => Some((Vec::new(), json!({"oracle": "hang", "key": "hang", "observed": format!("no result within {} s", EXEC_HANG_SECS), "expected": "returns"}))),
                _ => None,
            }
        }
    };
    let _ = std::fs::remove_file(&case);
    res
}

pub fn cmd_replay(args: &Args) -> i32 {
    let path = match args.pos.get(1) {
        Some(p) => PathBuf::from(p),
        None => {
            eprintln!("usage: lsim replay <file.json>");
            return 2;
        }
    };
    let (prop, cfg, ops, v) = match read_case(&path) {
        Ok(x) => x,
        Err(e) => {
            eprintln!("lsim replay: {}", e);
            return 2;
        }
    };
    let kind = v.get("failure_kind").and_then(|x| x.as_str()).unwrap_or("oracle");
    let target = match kind {
        "abort" => Target::Death { std_precondition: v.get("std_precondition").and_then(|x| x.as_bool()).unwrap_or(false) },
        "hang" => Target::Hang,
        "cross_build" => Target::CrossBuild,
        "miri" => Target::Miri { force_none: false, max_ops: 0 },
        _ => Target::Key(v.get("key").and_then(|x| x.as_str()).unwrap_or("").to_string()),
    };
    let fl = v.get("flavours").and_then(|x| x.as_array()).and_then(|a| a.get(0)).and_then(|x| x.as_str()).unwrap_or("checked").to_string();
    match fails_like(&prop, &cfg, &ops, &target, "replay", &fl) {
        Some((_, got)) => {
            let same = |k: &str| got.get(k) == v.get(k) || v.get(k).is_none() || kind != "oracle";
            if !(same("observed") && same("expected") && same("at_op")) {
                eprintln!("lsim replay: the violation reproduced with the same key but different details\n recorded: {} / {}\n now:      {} / {}", v["observed"], v["expected"], got["observed"], got["expected"]);
                return 2;
            }
            println!("replayed {} ops ({}): {}", ops.len(), kind, got.get("oracle").and_then(|x| x.as_str()).unwrap_or(""));
            println!("  observed: {}", got.get("observed").and_then(|x| x.as_str()).unwrap_or(""));
            println!("  expected: {}", got.get("expected").and_then(|x| x.as_str()).unwrap_or(""));
            println!("VIOLATION property={} replay={}", prop, path.display());
            1
        }
        None => {
            eprintln!("lsim replay: {} did not reproduce on the current tree", path.display());
            2
        }
    }
}

pub fn cmd_run(args: &Args) -> i32 {
    let prop = args.get("prop").unwrap_or("C10");
    let scenario = args.get("scenario").unwrap_or_else(|| scenarios_for(prop).get(0).cloned().unwrap_or("hist"));
    let seed = args.num("seed").unwrap_or(DEFAULT_SEED);
    let run = args.num("run").unwrap_or(0);
    let (cfg, ops) = gen::generate(prop, scenario, seed, run);
    if args.flag("dump-ops") {
        println!("{}", serde_json::to_string_pretty(&json!({"config": cfg.to_json(), "ops": ops_to_json(&ops)})).unwrap());
    }
    let out = exec::execute(prop, &cfg, &ops, args.flag("dump-log"));
    for l in &out.log {
        println!("{}", l);
    }
    println!("run {} scenario {} flavour {} ops {} executed {} skipped {} evals {} digest {:016x} nontrivial {}", run, scenario, flavour(), ops.len(), out.executed, out.skipped, out.evals, out.digest, out.nontrivial);
    if let Some(p) = &out.stopped_by_panic {
        println!("stopped by {}", p.render());
    }
    if let Some(v) = &out.violation {
        println!("violation {}", violation_json(v));
        return 1;
    }
    0
}

// =================================================================================================
// known findings

struct Known {
    open: Vec<(String, String, String)>, // property, key prefix, description
}

fn load_known() -> Known {
    let mut open = Vec::new();
    if let Ok(s) = std::fs::read_to_string(verif_dir().join("known_findings.txt")) {
        for line in s.lines() {
            let line = line.trim();
            if let Some(rest) = line.strip_prefix("open:") {
                let mut prop = String::new();
                let mut key = String::new();
                let mut desc = Vec::new();
                for w in rest.split_whitespace() {
                    if let Some(p) = w.strip_prefix("property=") {
                        prop = p.to_string();
                    } else if let Some(k) = w.strip_prefix("key=") {
                        key = k.to_string();
                    } else {
                        desc.push(w);
                    }
                }
                if !prop.is_empty() && !key.is_empty() {
                    open.push((prop, key, desc.join(" ")));
                }
            }
        }
    }
    Known { open }
}

// =================================================================================================
// check

struct Failure {
    flavour: &'static str,
    scenario: String,
    run: u64,
    target: Target,
    key: String,
    detail: Value,
}

pub fn cmd_check(args: &Args) -> i32 {
    let prop = match args.pos.get(1) {
        Some(p) if PROPS.contains(&p.as_str()) => p.clone(),
        Some(p) => {
            eprintln!("lsim check: property {} is not claimed by this framework (claimed: {:?})", p, PROPS);
            return 2;
        }
        None => {
            eprintln!("usage: lsim check <ID>");
            return 2;
        }
    };
    let tier = args.get("tier").map(|s| s.to_string()).or_else(|| std::env::var("VERIF_TIER").ok()).unwrap_or_else(|| "quick".into());
    let seed = args.num("seed").or_else(|| std::env::var("VERIF_SEED").ok().and_then(|s| s.parse().ok())).unwrap_or(DEFAULT_SEED);
    let jobs = args.num("jobs").unwrap_or(16).max(1) as usize;
    let t0 = Instant::now();
    println!("lsim check {} tier={} seed={} jobs={}", prop, tier, seed, jobs);
    if flavour() != "checked" {
        eprintln!("lsim check must be run from the checked (hooks) build");
        return 2;
    }
    let deadline_s: u64 = match tier.as_str() {
        "thorough" => 3000,
        _ => 400,
    };
    let mut failures: Vec<Failure> = Vec::new();
    let mut total = Agg::new();
    let mut per_scenario: Vec<Value> = Vec::new();
    let mut recheck_runs = 0u64;
    let mut recheck_mismatch = 0u64;
    let mut truncated = false;
    let mut cross_runs = 0u64;

    for scenario in scenarios_for(&prop) {
        let n = args.num("runs").unwrap_or_else(|| run_count(&prop, scenario, &tier));
        let b = run_batch(&exe_for("checked"), &prop, scenario, seed, 0, 1, n, jobs, deadline_s);
        println!("  scenario {:9} checked: {} runs, {} ops, {} oracle evaluations, {:.1} s, violations {}, aborts {}{}", scenario, b.agg.runs, b.agg.executed, b.agg.evals, b.wall, b.violations.len(), b.aborts.len(), if b.truncated { " (stopped at the wall-clock cap)" } else { "" });
        truncated |= b.truncated;
        per_scenario.push(json!({"scenario": scenario, "flavour": "checked", "runs": b.agg.runs, "ops": b.agg.executed, "evaluations": b.agg.evals, "wall_s": b.wall, "runs_per_hour": (b.agg.runs as f64 / b.wall.max(0.001) * 3600.0) as u64}));
        for (run, v) in &b.violations {
            if v.prop == prop {
                failures.push(Failure { flavour: "checked", scenario: scenario.to_string(), run: *run, target: Target::Key(v.key.clone()), key: v.key.clone(), detail: violation_json(v) });
            }
        }
        for a in &b.aborts {
            let hang = a.hang;
            let pre = death_is_precondition(&a.stderr);
            // an abort is a C01 matter always, a C19 matter when std's unsafe-precondition check fired
            let relevant = prop == "C01" || (prop == "C19" && pre);
            if relevant {
                let key = if hang { "hang".to_string() } else if pre { "abort|std_unsafe_precondition".to_string() } else { "abort".to_string() };
                failures.push(Failure {
                    flavour: "checked",
                    scenario: scenario.to_string(),
                    run: a.run,
                    target: if hang { Target::Hang } else { Target::Death { std_precondition: pre } },
                    key: format!("{}.{}", prop, key),
                    detail: json!({"oracle": format!("{}.{}", prop, if hang { "hang" } else { "abort" }), "observed": format!("{} ; stderr: {}", a.what, a.stderr), "expected": "returns normally"}),
                });
            } else {
                total.aborted_by_panic += 1;
            }
        }
        if failures.iter().any(|f| matches!(f.target, Target::Hang)) {
            println!("  a run hung; the remaining batches are skipped");
            total.merge_json(&b.agg.to_json());
            break;
        }
        // determinism recheck: ~1 % of the runs again, in differently laid out processes
        let rb = run_batch(&exe_for("checked"), &prop, scenario, seed, 7, 97, n, 3.min(jobs), deadline_s);
        for (run, d) in &rb.digests {
            if let Some(d0) = b.digests.get(run) {
                recheck_runs += 1;
                if d0 != d {
                    recheck_mismatch += 1;
                    eprintln!("lsim: DETERMINISM FAILURE scenario {} run {}: {:016x} vs {:016x}", scenario, run, d0, d);
                }
            }
        }
        // thorough tier: a batch of "deep" runs (wider bounds: stores up to 1500 records, histories
        // up to 600 ops, up to 5 threads / 6 stores, words up to 250 characters)
        if tier == "thorough" && args.num("runs").is_none() {
            let deep_n = (n / 200).max(200);
            let db = run_batch(&exe_for("checked"), &prop, scenario, seed, gen::DEEP_BASE, 1, gen::DEEP_BASE + deep_n, jobs, deadline_s);
            println!("  scenario {:9} deep   : {} runs, {} ops, {} oracle evaluations, {:.1} s, violations {}, aborts {}{}", scenario, db.agg.runs, db.agg.executed, db.agg.evals, db.wall, db.violations.len(), db.aborts.len(), if db.truncated { " (stopped at the wall-clock cap)" } else { "" });
            per_scenario.push(json!({"scenario": scenario, "flavour": "checked", "deep": true, "runs": db.agg.runs, "ops": db.agg.executed, "evaluations": db.agg.evals, "wall_s": db.wall, "runs_per_hour": (db.agg.runs as f64 / db.wall.max(0.001) * 3600.0) as u64}));
            truncated |= db.truncated;
            for (run, v) in &db.violations {
                if v.prop == prop {
                    failures.push(Failure { flavour: "checked", scenario: scenario.to_string(), run: *run, target: Target::Key(v.key.clone()), key: v.key.clone(), detail: violation_json(v) });
                }
            }
            for a in &db.aborts {
                let pre = death_is_precondition(&a.stderr);
                if prop == "C01" || (prop == "C19" && pre) {
                    failures.push(Failure { flavour: "checked", scenario: scenario.to_string(), run: a.run, target: if a.hang { Target::Hang } else { Target::Death { std_precondition: pre } }, key: format!("{}.{}", prop, if a.hang { "hang" } else { "abort" }), detail: json!({"observed": format!("{} ; stderr: {}", a.what, a.stderr), "expected": "returns normally"}) });
                }
            }
            total.merge_json(&db.agg.to_json());
        }
        // the differential properties also run in the shipping build (no debug assertions that
        // could mask a wrong answer behind a panic), on further run indices
        if matches!(prop.as_str(), "C06" | "C07" | "C10" | "C12" | "C18" | "C20") {
            let extra = (n / 3).max(1);
            let sb = run_batch(&exe_for("ship"), &prop, scenario, seed, n, 1, n + extra, jobs, deadline_s);
            println!("  scenario {:9} ship   : {} runs, {} ops, {} oracle evaluations, {:.1} s, violations {}, aborts {}", scenario, sb.agg.runs, sb.agg.executed, sb.agg.evals, sb.wall, sb.violations.len(), sb.aborts.len());
            per_scenario.push(json!({"scenario": scenario, "flavour": "ship", "runs": sb.agg.runs, "ops": sb.agg.executed, "evaluations": sb.agg.evals, "wall_s": sb.wall, "runs_per_hour": (sb.agg.runs as f64 / sb.wall.max(0.001) * 3600.0) as u64}));
            truncated |= sb.truncated;
            for (run, v) in &sb.violations {
                if v.prop == prop {
                    failures.push(Failure { flavour: "ship", scenario: scenario.to_string(), run: *run, target: Target::Key(v.key.clone()), key: v.key.clone(), detail: violation_json(v) });
                }
            }
            total.aborted_by_panic += sb.aborts.len() as u64;
            total.merge_json(&sb.agg.to_json());
        }
        // C01, second clause: the shipping build returns exactly the same hits
        if prop == "C01" {
            let sb = run_batch(&exe_for("ship"), &prop, scenario, seed, 0, 1, n, jobs, deadline_s);
            println!("  scenario {:9} ship   : {} runs, {:.1} s, violations {}, aborts {}", scenario, sb.agg.runs, sb.wall, sb.violations.len(), sb.aborts.len());
            per_scenario.push(json!({"scenario": scenario, "flavour": "ship", "runs": sb.agg.runs, "ops": sb.agg.executed, "wall_s": sb.wall, "runs_per_hour": (sb.agg.runs as f64 / sb.wall.max(0.001) * 3600.0) as u64}));
            truncated |= sb.truncated;
            let bad_checked: BTreeSet<u64> = b.violations.iter().map(|(r, _)| *r).chain(b.aborts.iter().map(|a| a.run)).collect();
            for (run, v) in &sb.violations {
                if v.prop == prop && !bad_checked.contains(run) {
                    // a panic that only the shipping build has: replayed through the cross-build target
                    failures.push(Failure { flavour: "checked", scenario: scenario.to_string(), run: *run, target: Target::CrossBuild, key: "C01.cross_build".into(), detail: violation_json(v) });
                }
            }
            for a in &sb.aborts {
                if !bad_checked.contains(&a.run) {
                    failures.push(Failure { flavour: "checked", scenario: scenario.to_string(), run: a.run, target: Target::CrossBuild, key: "C01.cross_build".into(), detail: json!({"observed": format!("shipping build: {} {}", a.what, a.stderr)}) });
                }
            }
            for (run, d) in &b.digests {
                if bad_checked.contains(run) {
                    continue;
                }
                if let Some(ds) = sb.digests.get(run) {
                    cross_runs += 1;
                    if ds != d {
                        failures.push(Failure { flavour: "checked", scenario: scenario.to_string(), run: *run, target: Target::CrossBuild, key: "C01.cross_build".into(), detail: json!({"observed": format!("history digest {:016x} (checked) vs {:016x} (shipping)", d, ds)}) });
                    }
                }
            }
        }
        total.merge_json(&b.agg.to_json());
    }

    let mut miri_json = json!({"ran": false, "note": "Miri runs in the thorough tier of C19 only"});
    if prop == "C19" && tier == "thorough" {
        let rep = miri_sweep(seed, jobs.min(16));
        println!("  miri: available {} runs {} wall {:.0} s failures {} {}", rep.available, rep.runs, rep.wall, rep.failures.len(), rep.note);
        miri_json = json!({"ran": rep.available, "micro_runs": rep.runs, "wall_s": rep.wall, "failures": rep.failures.len(), "note": rep.note,
            "what": "scratch micro-runs (<= 30 ops) and language-none hist micro-runs (<= 25 ops) interpreted by Miri; stemming languages excluded (building one costs about a minute under Miri)"});
        for (scenario, run, none, msg) in rep.failures {
            failures.push(Failure { flavour: "miri", scenario: scenario.clone(), run, target: Target::Miri { force_none: none, max_ops: if scenario == "hist" { 25 } else { 30 } }, key: "C19.miri".into(), detail: json!({"oracle": "C19.miri", "observed": msg, "expected": "no undefined behaviour reported by Miri"}) });
        }
    }
    if recheck_mismatch > 0 && failures.is_empty() {
        eprintln!("lsim: {} of {} re-executed runs gave a different history digest and no violation was found: the harness (or the library) is not deterministic; nothing is reported", recheck_mismatch, recheck_runs);
        return 2;
    }
    if recheck_mismatch > 0 {
        // results that differ between two executions of one run can also come from the library
        // (behaviour that depends on addresses or on uninitialised memory). Violations are only
        // reported if they reproduce when the run is executed alone, so go on and try.
        println!("  note: {} of {} re-executed runs gave a different history digest; only violations that reproduce alone are reported", recheck_mismatch, recheck_runs);
    }

    // ---- failures: group by key, consult known findings, minimise, write replay files
    failures.sort_by(|a, b| (a.key.clone(), scenario_rank(&a.scenario), a.run).cmp(&(b.key.clone(), scenario_rank(&b.scenario), b.run)));
    let known = load_known();
    let mut by_key: BTreeMap<String, Vec<&Failure>> = BTreeMap::new();
    for f in &failures {
        by_key.entry(f.key.clone()).or_default().push(f);
    }
    let mut slow_runs = 0u64;
    let mut unreproduced = 0u64;
    let mut violation_lines: Vec<String> = Vec::new();
    let mut known_lines: Vec<String> = Vec::new();
    let mut reported: Vec<Value> = Vec::new();
    let replay_dir = verif_dir().join("replays");
    let _ = std::fs::create_dir_all(&replay_dir);
    for (key, fs) in by_key.iter() {
        if let Some((_, _, desc)) = known.open.iter().find(|(p, k, _)| *p == prop && key.starts_with(k.as_str())) {
            known_lines.push(format!("KNOWN-FINDING: property={} {} (key {}, {} runs)", prop, desc, key, fs.len()));
            continue;
        }
        if violation_lines.len() >= 4 {
            continue; // enough distinct failures to act on; the rest is counted in the evidence
        }
        // the shortest failing run of this key is the best starting point
        let mut best: Option<(&Failure, Config, Vec<Op>)> = None;
        for f in fs.iter().take(12) {
            let (cfg, ops) = match f.target {
                Target::Miri { force_none, max_ops } => miri_case(&prop, &f.scenario, seed, f.run, max_ops, force_none),
                _ => gen::generate(&prop, &f.scenario, seed, f.run),
            };
            if best.as_ref().map(|(_, _, o)| ops.len() < o.len()).unwrap_or(true) {
                best = Some((f, cfg, ops));
            }
        }
        let (mut f, mut cfg, mut ops) = best.unwrap();
        let mut first = fails_like(&prop, &cfg, &ops, &f.target, "first", f.flavour);
        if first.is_none() && recheck_mismatch > 0 {
            // address-dependent behaviour: another run of the same key may reproduce alone
            for g in fs.iter().take(12) {
                let (c2, o2) = gen::generate(&prop, &g.scenario, seed, g.run);
                let again = fails_like(&prop, &c2, &o2, &g.target, "first", g.flavour);
                if again.is_some() {
                    f = *g;
                    cfg = c2;
                    ops = o2;
                    first = again;
                    break;
                }
            }
            if first.is_none() {
                println!("  note: no run with key {} reproduced when executed alone; not reported", key);
                unreproduced += 1;
                continue;
            }
        }
        let original_len = ops.len();
        let (cfg, ops, detail, tried) = match first {
            None if matches!(f.target, Target::Hang) => {
                // slow under load, not hanging: executed alone it finished in time
                println!("  note: run {} of scenario {} was killed as hanging inside its worker but finishes when executed alone; counted as slow, not as a violation", f.run, f.scenario);
                slow_runs += 1;
                continue;
            }
            None => {
                eprintln!("lsim: run {} of scenario {} reported {} in its worker but not when re-executed alone; harness error", f.run, f.scenario, key);
                return 2;
            }
            Some((_, d)) => {
                let at_op = d.get("at_op").and_then(|x| x.as_u64()).map(|x| x as usize);
                let mut counter = 0usize;
                let target = f.target.clone();
                let p = prop.clone();
                let fl = f.flavour;
                let mut test = |c: &Config, o: &[Op]| -> Option<Vec<usize>> {
                    counter += 1;
                    fails_like(&p, c, o, &target, &format!("min{}", counter), fl).map(|(s, _)| s)
                };
                // a Miri candidate costs the better part of a minute: only the truncation step is tried
                let budget = if matches!(f.target, Target::Hang) { 3 } else if matches!(f.target, Target::Miri { .. }) { 1 } else { 3000 };
                let (c2, o2, tried) = minimise::minimise(&cfg, &ops, at_op, budget, &mut test);
                let d2 = fails_like(&prop, &c2, &o2, &f.target, "final", f.flavour).map(|(_, d)| d).unwrap_or(d);
                (c2, o2, d2, tried)
            }
        };
        let path = replay_dir.join(format!("{}-{}-{}-{}{}.json", prop, seed, f.scenario, f.run, if f.flavour == "ship" { "-ship" } else { "" }));
        let kind = match f.target {
            Target::Key(_) => "oracle",
            Target::Death { .. } => "abort",
            Target::Hang => "hang",
            Target::CrossBuild => "cross_build",
            Target::Miri { .. } => "miri",
        };
        let mut extra = json!({
            "seed": seed, "run": f.run, "flavours": if kind == "cross_build" { json!(["checked", "ship"]) } else { json!([f.flavour]) },
            "failure_kind": kind, "key": key, "minimised_from_ops": original_len, "minimiser_candidates": tried,
            "std_precondition": matches!(f.target, Target::Death { std_precondition: true }),
        });
        if let (Some(o), Some(d)) = (extra.as_object_mut(), detail.as_object()) {
            for k in ["oracle", "at_op", "observed", "expected", "note", "at_log_line"] {
                if let Some(x) = d.get(k) {
                    o.insert(k.to_string(), x.clone());
                }
            }
        }
        write_case(&path, &prop, &cfg, &ops, extra);
        println!("violation of {} [{}] in scenario {} run {} ({} runs share this key); minimised {} -> {} ops with {} candidates", prop, key, f.scenario, f.run, fs.len(), original_len, ops.len(), tried);
        for (i, o) in ops.iter().enumerate() {
            println!("    #{} {}", i, o.to_json());
        }
        println!("    observed: {}", detail.get("observed").and_then(|x| x.as_str()).unwrap_or(""));
        println!("    expected: {}", detail.get("expected").and_then(|x| x.as_str()).unwrap_or(""));
        if let Some(n) = detail.get("note").and_then(|x| x.as_str()) {
            if !n.is_empty() {
                println!("    note: {}", n);
            }
        }
        violation_lines.push(format!("VIOLATION property={} replay={}", prop, path.display()));
        reported.push(json!({"key": key, "scenario": f.scenario, "run": f.run, "runs_with_this_key": fs.len(), "replay": path.display().to_string(), "ops": ops.len()}));
    }

    // ---- evidence
    let wall = t0.elapsed().as_secs_f64();
    let evidence = build_evidence(&prop, &tier, seed, &total, &per_scenario, wall, failures.len(), &reported, &known_lines, recheck_runs, truncated, cross_runs, &miri_json, slow_runs);
    let evdir = verif_dir().join("evidence");
    let _ = std::fs::create_dir_all(&evdir);
    let evpath = evdir.join(format!("{}.json", prop));
    std::fs::write(&evpath, serde_json::to_string_pretty(&evidence).unwrap()).expect("write evidence");

    for l in &known_lines {
        println!("{}", l);
    }
    for l in &violation_lines {
        println!("{}", l);
    }
    println!(
        "{}: {} runs, {} ops, {} oracle evaluations, {} distinct non-trivial histories, {} abstract states, {:.1} s; {}",
        prop,
        total.runs,
        total.executed,
        total.evals,
        total.nontrivial.len(),
        total.states.len(),
        wall,
        if violation_lines.is_empty() { "property held on everything explored" } else { "VIOLATED" }
    );
    if violation_lines.is_empty() && unreproduced > 0 {
        eprintln!("lsim: violations were seen in workers, results differ between executions of the same run, and nothing reproduced alone: no verdict (harness error)");
        return 2;
    }
    if violation_lines.is_empty() {
        0
    } else {
        1
    }
}

fn scenario_rank(s: &str) -> usize {
    gen::SCENARIOS.iter().position(|x| *x == s).unwrap_or(9)
}

fn rule_for(prop: &str) -> &'static str {
    match prop {
        "C01" => "seeded histories of add/limit/marker/search calls (hist), registry calls (registry) and permuted deliveries (replica), each executed in the checked build (debug assertions, overflow checks, hooks) and in the shipping build; every hist run also carries the code point (run mod 0x530) in a title and three queries; oracle: no panic/abort/hang on any op and identical history digests across the two builds. Non-trivial = distinct op list in which a search returned a hit and the history also changed the limit or the markers.",
        "C06" => "seeded histories on stores of 0..400 records (one run in 150: 1030..1600 or 4100..5000 records under a limit that keeps |store| <= 10*limit); at sampled searches the hit list is compared with one single-record store per hit (soundness, any size) and, for n <= 10*limit, with the prefix of an unlimited fresh store and the set of records that hit alone; checked and shipping build. Non-trivial = distinct op list with a compared search that had >= 2 hits and n > limit.",
        "C07" => "the same add messages delivered to 2-5 replicas in different orders on differently polluted caller threads (foreign-language clients using the same vocabulary, searches and limit swings during delivery, ratings from all of usize, one run in 150 with 1030..1600 records); after delivery all replicas must answer identically, and pairs of hits re-delivered alone (both orders) must keep their relative order. Non-trivial = distinct op list in which two replicas received a returned pair in opposite orders, or a pair check ran on >= 2 hits.",
        "C10" => "seeded histories over {add, clear, set limit, set markers, search, search bursts of 255..4097 calls} with scratch pollution, vocabulary pollution in another language, echo of a query to a peer store, thread migration, fresh threads, capacity knob; the even run indices below 74896 enumerate all histories of 1..5 ops over an 8-op alphabet. At every search the store under test (long-lived, polluted) must equal a store rebuilt from the logical state on a pristine thread; all repetitions of a burst must agree. Checked and shipping build. Non-trivial = distinct op list in which a compared search returned >= 1 hit after a state-changing op that followed an earlier search on the same store.",
        "C12" => "as C10 with rating ties, duplicate titles, ratings from all of usize, limits 0..n+2 and queries made of any non-alphanumeric code points below U+3000; whether a query is empty is decided from its characters, not by the tokeniser under test; spec oracle computed from the model's (rating, normalised title) list only, plus: an un-highlighted hit is the stored title as the tokeniser keeps it. Non-trivial = distinct op list with an empty-query search where n > limit >= 1 and there was a rating tie or an add since the previous empty-query search.",
        "C16" => "long-lived DamerauLevenshtein instances per simulated caller thread (capacity knob 0..20), several clients' planned comparisons interleaved by the scheduler, lengths alternating 0..4 and 15..70 (250 in deep runs), alphabets incl. code points that agree in their low 7/8/16 bits and invisible format characters, one comparison in six with an unfinished word, bursts of 254..4100 and 65534..65537 identical calls, word families with a common prefix, plus every ordered pair of words of length <= 3 over a 6-symbol mixed alphabet (first 1049 run indices). Oracles: bit-equality with a fresh instance on a pristine thread, prefix cells vs. own computation, symmetry, identity, half-steps, Levenshtein upper bound, half unrestricted-Damerau lower bound, discount monotonicity; word_match through the thread-local scratch vs. pristine thread. Non-trivial = distinct op list with a call whose predecessor on the same instance was longer or that triggered growth, or a burst.",
        "C17" => "long-lived Jaccard instances per simulated caller thread (capacity knob), interleaved clients, lengths alternating short/long, alphabets up to 60 symbols, aliased inputs (prefix/suffix cut from one buffer), plus the systematic pairs; oracle: bit-equality with |A∩B|/|A∪B| over BTreeSet, symmetry, range, invariance under repetition/permutation and under consistent renaming of all characters, equality with a fresh instance; the word matcher's Jaccard pre-filter on the caller thread vs. a pristine thread and under renaming. Non-trivial = distinct op list with a call whose predecessor was longer or that exceeded the initial capacity.",
        "C18" => "seeded sequences of adds (duplicates, empty titles, one-letter words, shared grams, 21..90-word titles, mega titles with hundreds of distinct grams, aliasing code points) interleaved with index.prepare(query, size) on stores that also migrate between threads; oracle: gram sets recomputed from the public tokeniser; a panic of prepare that an index built from the same adds on a fresh thread does not have. Checked and shipping build. Non-trivial = distinct op list with a prepare that had >= 2 positives after >= 2 adds.",
        "C19" => "scratch scenario (direct driving, capacity knob, alternating long/short up to 3.5x capacity, bursts) plus hist and registry runs with pollution; monitored: guarded row/column/index assertions at every unchecked access and std's unsafe-precondition checks (abort); thorough tier adds about 45 micro-runs under Miri. Non-trivial = distinct op list in which a buffer grew and a later call was shorter.",
        "C20" => "2 simulated caller threads with disjoint id pools (ids that agree modulo 2^8, 2^16, 2^32 included), 2-6 registry clients, valid calls only, destroy/re-create, limit swings, pollution; after every call every live id's buffer must equal the hits of its last search, which in turn equal a stand-alone store driven with the same per-id history; a panic inside the registry's own bookkeeping on a valid call is a violation. Checked and shipping build. Non-trivial = distinct op list with >= 2 live ids on one thread and a non-empty buffer observed across a foreign op.",
        _ => "",
    }
}

fn assumptions_for(prop: &str) -> Vec<&'static str> {
    let mut v = vec![
        "a brand-new OS thread starts with every thread-local of the library in its initial state",
        "the input side is only as wide as the workload (corpora + typing user); this is sampling, not enumeration of all Unicode strings",
        "rust/wasm and javascript/ are not run (no wasm32 target offline); their call pattern is modelled by the registry client",
    ];
    match prop {
        "C12" | "C18" => v.push("the oracle trusts the public tokeniser (tokenize_record / tokenize_query) for normalised characters and words"),
        "C10" | "C20" | "C06" | "C07" => v.push("the reference is the library itself in a provably fresh state (differential oracle): it detects dependence on history/order/neighbours, not a wrong but history-independent answer"),
        "C19" => v.push("hook assertions see every unchecked access of the anchored files; std precondition checks are live because the crates are compiled with debug assertions"),
        "C01" => v.push("Store: Send (checked by the compiler in the harness)"),
        _ => {}
    }
    v
}

#[allow(clippy::too_many_arguments)]
fn build_evidence(prop: &str, tier: &str, seed: u64, a: &Agg, per_scenario: &[Value], wall: f64, failures: usize, reported: &[Value], known: &[String], recheck_runs: u64, truncated: bool, cross_runs: u64, miri: &Value, slow_runs: u64) -> Value {
    let mut faults = serde_json::Map::new();
    let mut fault_runs = serde_json::Map::new();
    for (i, k) in FAULT_KINDS.iter().enumerate() {
        faults.insert(k.to_string(), json!(a.faults[i]));
        fault_runs.insert(k.to_string(), json!(a.runs_with_fault[i]));
    }
    let mut probes = serde_json::Map::new();
    let mut warnings: Vec<String> = Vec::new();
    for (i, k) in PROBE_NAMES.iter().enumerate() {
        probes.insert(k.to_string(), json!(a.probes[i]));
    }
    let relevant_probes: &[usize] = match prop {
        "C10" | "C12" => &[1, 2],
        "C06" => &[3, 6],
        "C18" => &[6],
        "C16" | "C19" => &[0],
        "C17" => &[7],
        "C01" => &[4, 5],
        _ => &[],
    };
    for &i in relevant_probes {
        if a.probes[i] == 0 {
            warnings.push(format!("probe {} never fired in this batch", PROBE_NAMES[i]));
        }
    }
    if slow_runs > 0 {
        warnings.push(format!("{} run(s) were killed as hanging inside a worker but finished when executed alone (machine under load); not counted as violations", slow_runs));
    }
    if truncated {
        warnings.push("a batch stopped at its wall-clock cap before the planned number of runs".to_string());
    }
    let samples: Vec<Value> = [&a.sample_short, &a.sample_long, &a.sample_faulty].iter().filter_map(|s| s.as_ref().map(|(_, v)| v.clone())).collect();
    let samples = if samples.is_empty() { vec![json!("no run completed")] } else { samples };
    json!({
        "property_id": prop,
        "tier": if tier == "thorough" { "thorough" } else { "quick" },
        "tier_requested": tier,
        "seed": seed,
        "level": "exploration",
        "wall_s": wall,
        "violations": failures,
        "coverage": {
            "evaluations": a.evals.max(a.runs),
            "oracle_evaluations": a.evals,
            "distinct_nontrivial": a.nontrivial.len(),
            "rule": rule_for(prop),
            "samples": samples,
            "exhaustive": false,
            "runs": a.runs,
            "ops": a.executed,
            "ops_skipped_as_invalid": a.skipped,
            "logical_steps": a.executed,
            "simulated_time": "n/a - the system under test reads no clock; steps are logical",
            "runs_per_hour": (a.runs as f64 / wall.max(0.001) * 3600.0) as u64,
            "seeds_per_hour": (a.runs as f64 / wall.max(0.001) * 3600.0) as u64,
            "per_scenario": per_scenario,
            "searches": a.searches,
            "searches_with_hits": a.searches_with_hits,
            "short_runs_le_12_ops": a.short_runs,
            "fault_free_runs": a.fault_free_runs,
            "faults_fired": faults,
            "runs_in_which_fault_fired": fault_runs,
            "probes": probes,
            "reach_warnings": warnings,
            "distinct_op_trigrams": a.trigrams.len(),
            "distinct_abstract_states": a.states.len(),
            "abstract_state_measure": "hist: (records bucket, limit-vs-records relation, empty-query cache primed since last change, adds since clear bucket, ever cleared, caller thread polluted, thread generation) at each search; registry: (op kind, live ids on the thread, records bucket, limit relation, buffer non-empty, id re-created, thread polluted) after each call; replica: (records bucket, limit relation, replicas, threads used, replicas searched during delivery, polluted, hits bucket) at each convergence check; scratch: (length buckets of both words and of the previous call, growth, capacity knob, matrix size bucket) per call",
            "aborted_by_panic": a.aborted_by_panic,
            "determinism_recheck": {"runs": recheck_runs, "mismatches": 0},
            "cross_build_runs_compared": cross_runs,
            "miri": miri,
            "violations_reported": reported,
            "known_findings_matched": known,
            "components": {
                "real": ["rust/core (lucid-suggest-core): Store, TrigramIndex, search, scoring, highlighting, tokenisation, all seven Lang definitions, thread-local registries and scratch"],
                "stub": [],
                "not_run": ["rust/wasm (wasm-bindgen forwarding layer)", "javascript/ (promise-chain wrapper)"]
            },
            "flavours": if matches!(prop, "C16" | "C17" | "C19") { json!(["checked (debug assertions, overflow checks, hooks)"]) } else { json!(["checked (debug assertions, overflow checks, hooks)", "ship (release, hooks compiled out)"]) },
        },
        "assumptions": assumptions_for(prop),
    })
}

// =================================================================================================
// in-process batch (no child processes): this is what runs under Miri

/// The op list of a Miri micro-run: the generated run, cut to `max_ops`, optionally with every
/// language replaced by "none" (building a stemming Lang costs about a minute under Miri).
fn miri_case(prop: &str, scenario: &str, seed: u64, run: u64, max_ops: usize, force_none: bool) -> (Config, Vec<Op>) {
    let (cfg, mut ops) = gen::generate(prop, scenario, seed, run);
    ops.truncate(max_ops);
    for o in ops.iter_mut() {
        // a burst of 65 536 calls would take days under the interpreter
        match o {
            Op::Burst { n, .. } | Op::SearchBurst { n, .. } | Op::JBurst { n, .. } => *n = (*n).min(3),
            _ => {}
        }
        // ... and a comparison of two 1 300-character words for hours: words are cut to 80 characters
        let cut = |s: &mut String| {
            if s.chars().count() > 80 {
                *s = s.chars().take(80).collect();
            }
        };
        match o {
            Op::Dist { a, ca, b, cb, .. } | Op::Burst { a, ca, b, cb, .. } => {
                let (fa, fb) = (ca.ends_with('~'), cb.ends_with('~'));
                cut(a);
                cut(b);
                *ca = ca.trim_end_matches('~').chars().take(80).collect();
                *cb = cb.trim_end_matches('~').chars().take(80).collect();
                if fa {
                    ca.push('~');
                }
                if fb {
                    cb.push('~');
                }
            }
            Op::Jacc { a, b, .. } => {
                cut(a);
                cut(b);
            }
            Op::WMatch { r, q, .. } | Op::JCheck { r, q, .. } | Op::JBurst { r, q, .. } => {
                cut(r);
                cut(q);
            }
            Op::Preempt { r, q, r2, q2, .. } => {
                cut(r);
                cut(q);
                cut(r2);
                cut(q2);
            }
            _ => {}
        }
    }
    if force_none {
        for o in ops.iter_mut() {
            match o {
                Op::Create { lang, .. } | Op::Pollute { lang, .. } | Op::RCreate { lang, .. } => *lang = "none".to_string(),
                _ => {}
            }
        }
    }
    (cfg, ops)
}

struct MiriReport {
    available: bool,
    runs: u64,
    wall: f64,
    failures: Vec<(String, u64, bool, String)>, // scenario, run, force_none, message
    note: String,
}

fn miri_cmd() -> Command {
    let mut c = Command::new("cargo");
    c.current_dir(verif_dir().join("sim"))
        .env("CARGO_TARGET_DIR", verif_dir().join("target").join("miri"))
        .env("CARGO_NET_OFFLINE", "true")
        .env("MIRIFLAGS", "-Zmiri-disable-isolation")
        .args(["+nightly", "miri", "run", "--offline", "--quiet", "--features", "hooks", "--"]);
    c
}

/// Thorough tier of C19: a few micro-runs interpreted by Miri (catches what the index
/// assertions cannot: use of uninitialised or freed memory, invalid references).
fn miri_sweep(seed: u64, procs: usize) -> MiriReport {
    let t0 = Instant::now();
    let mut rep = MiriReport { available: false, runs: 0, wall: 0.0, failures: Vec::new(), note: String::new() };
    // warm-up: builds the interpreter sysroot and the crate once (also tells us whether Miri works here)
    let warm = miri_cmd().args(["miri-batch", "--count", "0"]).output();
    match warm {
        Ok(o) if o.status.success() => rep.available = true,
        Ok(o) => {
            rep.note = format!("Miri is not usable in this sandbox: {}", tail(&String::from_utf8_lossy(&o.stderr), 400));
            return rep;
        }
        Err(e) => {
            rep.note = format!("Miri is not usable in this sandbox: {}", e);
            return rep;
        }
    }
    let mut children = Vec::new();
    for i in 0..procs {
        // two thirds scratch micro-runs, one third language-"none" hist micro-runs
        let (scenario, start, count, max_ops, none) = if i % 3 == 2 {
            ("hist", 100_001 + 2 * i as u64, 2u64, 25usize, true)
        } else {
            ("scratch", gen::SYSTEMATIC_SCRATCH + 1000 + 3 * i as u64, 3u64, 30usize, false)
        };
        let mut c = miri_cmd();
        c.args(["miri-batch", "--prop", "C19", "--scenario", scenario, "--seed", &seed.to_string(), "--start", &start.to_string(), "--count", &count.to_string(), "--max-ops", &max_ops.to_string()]);
        if none {
            c.arg("--force-lang-none");
        }
        // output goes to files: nobody reads a pipe while we poll for the exit
        let outp = tmp_dir().join(format!("miri-{}-{}.out", std::process::id(), i));
        let errp = tmp_dir().join(format!("miri-{}-{}.err", std::process::id(), i));
        let (of, ef) = match (std::fs::File::create(&outp), std::fs::File::create(&errp)) {
            (Ok(a), Ok(b)) => (a, b),
            _ => continue,
        };
        if let Ok(ch) = c.stdout(Stdio::from(of)).stderr(Stdio::from(ef)).stdin(Stdio::null()).spawn() {
            children.push((scenario, start, count, none, ch, outp, errp));
        }
    }
    // an interpreter process that is still running after 25 minutes is killed and counted as
    // "timed out" (slow is not undefined behaviour)
    let deadline = Instant::now() + Duration::from_secs(1500);
    for (scenario, start, count, none, mut ch, outp, errp) in children {
        loop {
            match ch.try_wait() {
                Ok(Some(_)) => break,
                Ok(None) if Instant::now() > deadline => {
                    let _ = ch.kill();
                    rep.note = format!("{} a Miri process was killed after 25 minutes ({} from run {});", rep.note, scenario, start);
                    break;
                }
                Ok(None) => std::thread::sleep(Duration::from_millis(500)),
                Err(_) => break,
            }
        }
        let killed = rep.note.contains(&format!("({} from run {})", scenario, start));
        if let Ok(status) = ch.wait() {
            let out = std::fs::read_to_string(&outp).unwrap_or_default();
            let err = std::fs::read_to_string(&errp).unwrap_or_default();
            let _ = std::fs::remove_file(&outp);
            let _ = std::fs::remove_file(&errp);
            if killed {
                continue;
            }
            struct O { status: std::process::ExitStatus }
            let o = O { status };
            let done: Vec<u64> = out.lines().filter(|l| l.starts_with("MIRI-RUN ")).filter_map(|l| l.split(' ').nth(1).and_then(|x| x.parse().ok())).collect();
            rep.runs += done.len() as u64;
            let ub = err.contains("Undefined Behavior") || err.contains("error: unsupported operation") || out.lines().any(|l| l.starts_with("V "));
            if ub || !o.status.success() {
                // the run that was being interpreted when Miri stopped
                let failing = (start..start + count).find(|r| !done.contains(r)).unwrap_or(start);
                rep.failures.push((scenario.to_string(), failing, none, tail(&err, 1200)));
            }
        }
    }
    rep.wall = t0.elapsed().as_secs_f64();
    rep
}

pub fn cmd_miri_batch(args: &Args) -> i32 {
    let prop = args.get("prop").unwrap_or("C19").to_string();
    let scenario = args.get("scenario").unwrap_or("scratch").to_string();
    let seed = args.num("seed").unwrap_or(DEFAULT_SEED);
    let start = args.num("start").unwrap_or(0);
    let count = args.num("count").unwrap_or(1);
    let max_ops = args.num("max-ops").unwrap_or(40) as usize;
    let mut bad = 0;
    for r in start..start + count {
        let (cfg, ops) = miri_case(&prop, &scenario, seed, r, max_ops, args.flag("force-lang-none"));
        let out = exec::execute(&prop, &cfg, &ops, false);
        println!("MIRI-RUN {} ops {} executed {} digest {:016x} panic {}", r, ops.len(), out.executed, out.digest, out.stopped_by_panic.as_ref().map(|p| p.render()).unwrap_or_default());
        if let Some(v) = &out.violation {
            println!("V {} {}", r, violation_json(v));
            bad += 1;
        }
    }
    if bad > 0 {
        1
    } else {
        0
    }
}

// =================================================================================================
// selftest

pub fn cmd_selftest(args: &Args) -> i32 {
    let what = args.pos.get(1).map(|s| s.as_str()).unwrap_or("determinism");
    if what != "determinism" {
        eprintln!("lsim selftest: unknown test {}", what);
        return 2;
    }
    let n = args.num("runs").unwrap_or(2000);
    let seed = args.num("seed").unwrap_or(DEFAULT_SEED);
    let mut bad = 0u64;
    let mut compared = 0u64;
    for prop in PROPS.iter() {
        for scenario in scenarios_for(prop) {
            // start beyond the systematic corner as well as inside it
            let mut maps: Vec<HashMap<u64, u64>> = Vec::new();
            for jobs in [1usize, 5, 16] {
                let b = run_batch(&exe_for("checked"), prop, scenario, seed, 0, 1, n, jobs, 3000);
                if !b.aborts.is_empty() {
                    eprintln!("selftest: aborts in {} {}", prop, scenario);
                }
                maps.push(b.digests);
            }
            if scenario != "scratch" {
                let b = run_batch(&exe_for("ship"), prop, scenario, seed, 0, 1, n, 7, 3000);
                maps.push(b.digests);
            }
            for m in maps.iter().skip(1) {
                for (run, d) in m {
                    compared += 1;
                    if maps[0].get(run) != Some(d) {
                        bad += 1;
                        if bad < 20 {
                            eprintln!("selftest: {} {} run {} digests differ", prop, scenario, run);
                        }
                    }
                }
            }
            println!("selftest determinism: {} {} ok so far ({} comparisons, {} mismatches)", prop, scenario, compared, bad);
        }
    }
    if bad > 0 {
        return 2;
    }
    0
}
