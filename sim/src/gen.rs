//! Generators: (property profile, scenario, seed, run index) -> Config + op list.
//! Every choice comes from one PRNG stream derived from (VERIF_SEED, scenario, run). The first
//! run indices of a scenario are a *systematic corner*: they enumerate short histories over a
//! small op alphabet instead of drawing them (still one integer -> one run).

use crate::corpus::{self, ecommerce, long_word, separator_query, synth_title, synth_word, type_query, unrelated_query};
use crate::ops::{Config, Op};
use crate::rng::Rng;
use crate::sut::LANGS;

pub const SCENARIOS: [&str; 4] = ["hist", "registry", "replica", "scratch"];

pub fn scenario_tag(s: &str) -> u64 {
    match s {
        "hist" => 1,
        "registry" => 2,
        "replica" => 3,
        "scratch" => 4,
        _ => 99,
    }
}

/// Number of leading run indices of `hist` that enumerate short histories (all sequences of
/// 1..=5 ops over an 8-op alphabet: 8 + 64 + 512 + 4096 + 32768).
pub const SYSTEMATIC_HIST: u64 = 37448;
/// Leading run indices of `scratch` that cover every pair of words of length <= 3 over a
/// 6-symbol alphabet (259 words, 67 081 ordered pairs, 64 per run).
pub const SCRATCH_WORDS: u64 = 259;
pub const SCRATCH_PAIRS_PER_RUN: u64 = 64;
pub const SYSTEMATIC_SCRATCH: u64 = (SCRATCH_WORDS * SCRATCH_WORDS + SCRATCH_PAIRS_PER_RUN - 1) / SCRATCH_PAIRS_PER_RUN;

/// Run indices from here on are "deep" runs (thorough tier): larger stores, longer histories,
/// more threads and clients, longer words. Same generators, wider bounds.
pub const DEEP_BASE: u64 = 1 << 40;

thread_local! {
    static DEEP: std::cell::Cell<bool> = std::cell::Cell::new(false);
}

fn deep() -> bool {
    DEEP.with(|d| d.get())
}

pub fn generate(prop: &str, scenario: &str, seed: u64, run: u64) -> (Config, Vec<Op>) {
    DEEP.with(|d| d.set(run >= DEEP_BASE));
    let mut rng = Rng::new(seed, scenario_tag(scenario) ^ (crate::rng::fnv_str(prop) << 8), run);
    match scenario {
        "hist" => {
            let systematic = matches!(prop, "C10" | "C12");
            // even run indices walk through the systematic corner until it is exhausted
            if systematic && run % 2 == 0 && run / 2 < SYSTEMATIC_HIST {
                systematic_hist(prop, run / 2)
            } else {
                let (cfg, mut ops) = gen_hist(prop, &mut rng);
                add_preempted_searches(&cfg, &mut ops, &mut rng);
                if prop == "C01" {
                    // the code point of the run: every scalar value below U+0530 gets its turn in a
                    // title and in queries (class lookup, splitting, folding and case mapping all
                    // branch on the code point)
                    if let Some(cp) = char::from_u32((run % 0x530) as u32) {
                        ops.push(Op::Add { s: 0, id: 9_999_999, title: format!("ab{}cd {} x{}", cp, cp, cp), rating: 1 });
                        ops.push(Op::Search { s: 0, q: format!("ab{}c", cp), deep: false });
                        ops.push(Op::Search { s: 0, q: format!("{}", cp), deep: false });
                        ops.push(Op::Search { s: 0, q: format!("x{} {}", cp, cp), deep: false });
                    }
                }
                (cfg, ops)
            }
        }
        "registry" => gen_registry(prop, &mut rng),
        "replica" => gen_replica(prop, &mut rng),
        "scratch" => gen_scratch(prop, &mut rng, run),
        _ => (Config { scenario: scenario.to_string(), threads: 1, capacity: None }, Vec::new()),
    }
}

/// Mid-search preemption: pairs of searches this run already makes on two different stores are
/// repeated later with the first one parked inside the library while the second runs. Drawn from
/// a PRNG stream of its own after the history is complete, so the history itself is what it was
/// before this fault kind existed.
fn add_preempted_searches(cfg: &Config, ops: &mut Vec<Op>, rng: &mut Rng) {
    let mut prng = Rng::from_u64(crate::rng::mix(rng.next_u64(), 0x5851_f42d_4c95_7f2d));
    if cfg.threads < 2 || !prng.chance(2, 3) {
        return;
    }
    let searches: Vec<(usize, usize, String)> = ops.iter().enumerate().filter_map(|(i, o)| match o {
        Op::Search { s, q, .. } => Some((i, *s, q.clone())),
        _ => None,
    }).collect();
    if searches.len() < 2 {
        return;
    }
    let mut inserts: Vec<(usize, Op)> = Vec::new();
    for _ in 0..prng.range(1, 4) {
        let (i, s, q) = prng.pick(&searches).clone();
        let others: Vec<&(usize, usize, String)> = searches.iter().filter(|x| x.1 != s).collect();
        if others.is_empty() {
            return;
        }
        let (j, s2, q2) = (*prng.pick(&others)).clone();
        let at = match prng.below(4) { 0 => 1, 1 => prng.range(1, 4), 2 => prng.range(1, 30), _ => prng.range(1, 400) };
        let pos = prng.range(i.max(j) + 1, ops.len());
        inserts.push((pos, Op::PSearch { s, s2, q, q2, at }));
    }
    inserts.sort_by(|a, b| b.0.cmp(&a.0));
    for (pos, o) in inserts {
        ops.insert(pos, o);
    }
}

// ------------------------------------------------------------------------------------------------
fn systematic_hist(prop: &str, run: u64) -> (Config, Vec<Op>) {
    // decode run -> (length, digits)
    let mut len = 1usize;
    let mut base = 0u64;
    let mut count = 8u64;
    while run >= base + count {
        base += count;
        count *= 8;
        len += 1;
    }
    let mut x = run - base;
    let mut digits = vec![0usize; len];
    for d in digits.iter_mut().rev() {
        *d = (x % 8) as usize;
        x /= 8;
    }
    let ties = prop == "C12";
    let mut ops = vec![Op::Create { s: 0, t: 0, lang: "none".into() }];
    let mut next_id = 1usize;
    for d in digits {
        ops.push(match d {
            0 => {
                next_id += 1;
                Op::Add { s: 0, id: next_id, title: "alpha a".into(), rating: 5 }
            }
            1 => {
                next_id += 1;
                Op::Add { s: 0, id: next_id, title: "beta ab".into(), rating: if ties { 5 } else { 7 } }
            }
            2 => Op::Clear { s: 0 },
            3 => Op::SetLimit { s: 0, limit: 1 },
            4 => Op::SetLimit { s: 0, limit: 9 },
            5 => Op::Search { s: 0, q: "".into(), deep: false },
            6 => Op::Search { s: 0, q: "a".into(), deep: false },
            _ => {
                if ties {
                    next_id += 1;
                    Op::Add { s: 0, id: next_id, title: "gamma".into(), rating: 9 }
                } else {
                    Op::SetMarkers { s: 0, l: "<".into(), r: ">".into() }
                }
            }
        });
    }
    (Config { scenario: "hist".into(), threads: 1, capacity: None }, ops)
}

// ------------------------------------------------------------------------------------------------
#[derive(Clone, Copy, PartialEq)]
enum RatingMode {
    Distinct,
    FewValues,
    Random,
    AllEqual,
    /// pairwise distinct values around and far beyond 2^31 (the properties other than C01 do not bound ratings)
    Huge,
}

struct GStore {
    s: usize,
    lang: String,
    thread: usize,
    /// titles currently held (shadow of the model), for the typing user
    held: Vec<String>,
    /// titles this store draws its adds from
    pool: Vec<String>,
    next_id: usize,
    rating_mode: RatingMode,
    used_ratings: Vec<usize>,
    limit: usize,
    /// record ids are the caller's: in some runs they collide (drawn from 0..4)
    dup_ids: bool,
}

fn pick_lang(rng: &mut Rng) -> String {
    // none / en / de are over-weighted: they carry the e-commerce corpus and the known traps
    match rng.below(10) {
        0..=2 => "none".into(),
        3..=4 => "en".into(),
        5..=6 => "de".into(),
        _ => (*rng.pick(&LANGS)).to_string(),
    }
}

fn make_pool(rng: &mut Rng, lang: &str, size: usize) -> Vec<String> {
    let mut pool = Vec::new();
    let ecom = ecommerce();
    let native = corpus::titles_for(lang);
    let alphabet = *rng.pick(corpus::ALPHABETS);
    let source = rng.below(10);
    for _ in 0..size.max(1) {
        let t: String = match source {
            // real titles (a contiguous window shares many words, e.g. "... heart ...")
            0..=3 if native.is_empty() || rng.chance(1, 3) => (*rng.pick(ecom)).to_string(),
            0..=3 => (*rng.pick(&native)).to_string(),
            4..=5 => {
                if rng.chance(1, 2) { (*rng.pick(corpus::EN_EXTRA)).to_string() } else if !native.is_empty() { (*rng.pick(&native)).to_string() } else { (*rng.pick(ecom)).to_string() }
            }
            6..=7 => synth_title(rng, alphabet),
            _ => match rng.below(14) {
                10 => {
                    // a title of 21..90 words: the per-call match vectors start with room for 20
                    let n = rng.range(21, 90);
                    (0..n).map(|_| synth_word(rng, alphabet, 1, 5)).collect::<Vec<_>>().join(" ")
                }
                11 => long_word(rng, 71, 140),
                12 | 13 => {
                    // a "mega title": many real words, hundreds of distinct grams
                    let k = rng.range(8, 20);
                    (0..k).map(|_| (*rng.pick(ecom)).to_string()).collect::<Vec<_>>().join(" ")
                }
                8 => corpus::soup(rng),
                9 => {
                    let t = (*rng.pick(ecom)).to_string();
                    corpus::spice(rng, &t)
                }
                0 => String::new(),
                1 => (*rng.pick(corpus::SEPARATORS)).to_string(),
                2 => long_word(rng, 21, 70),
                3 => synth_word(rng, alphabet, 1, 1),
                4 => format!("{} {}", long_word(rng, 18, 30), synth_word(rng, alphabet, 1, 4)),
                _ => (*rng.pick(ecom)).to_string(),
            },
        };
        // some titles are stored decomposed (NFD) or in upper case
        let t = if rng.chance(1, 10) { corpus::decompose_str(&t) } else if rng.chance(1, 14) { t.to_uppercase() } else { t };
        pool.push(t);
    }
    pool
}

impl GStore {
    fn rating(&mut self, rng: &mut Rng) -> usize {
        let r = match self.rating_mode {
            RatingMode::Distinct => loop {
                let r = rng.below(1 << 20);
                if !self.used_ratings.contains(&r) {
                    break r;
                }
            },
            RatingMode::FewValues => rng.below(3),
            RatingMode::Random => {
                if rng.chance(1, 8) { (1usize << 31) - 1 - rng.below(3) } else { rng.below(1 << 31) }
            }
            RatingMode::AllEqual => 10,
            RatingMode::Huge => loop {
                // around 2^31, anywhere below 2^62, or anywhere in usize (upper half included)
                let r = match rng.below(3) {
                    0 => (1usize << 31) - 4 + rng.below(8),
                    1 => rng.below(1usize << 62),
                    _ => rng.next_u64() as usize,
                };
                if !self.used_ratings.contains(&r) {
                    break r;
                }
            },
        };
        self.used_ratings.push(r);
        r
    }

    fn add_op(&mut self, rng: &mut Rng) -> Op {
        let title = if !self.held.is_empty() && rng.chance(1, 10) {
            rng.pick(&self.held).clone() // duplicate title
        } else {
            rng.pick(&self.pool).clone()
        };
        self.next_id += 1 + rng.below(3);
        let rating = self.rating(rng);
        self.held.push(title.clone());
        let id = if self.dup_ids { rng.below(4) } else { self.next_id };
        Op::Add { s: self.s, id, title, rating }
    }

    fn query(&self, rng: &mut Rng, others: &[String]) -> String {
        match rng.below(22) {
            20 => corpus::soup(rng),
            21 if !self.held.is_empty() => {
                let t = rng.pick(&self.held).clone();
                let q = type_query(rng, &t);
                corpus::spice(rng, &q)
            }
            0..=1 => separator_query(rng),
            2 => unrelated_query(rng),
            3 if !others.is_empty() => {
                let t = rng.pick(others).clone();
                type_query(rng, &t)
            }
            _ => {
                if !self.held.is_empty() {
                    let t = rng.pick(&self.held).clone();
                    type_query(rng, &t)
                } else if !self.pool.is_empty() {
                    let t = rng.pick(&self.pool).clone();
                    type_query(rng, &t)
                } else {
                    separator_query(rng)
                }
            }
        }
    }
}

/// A foreign client in ANOTHER language that uses the victim's own words: same spelling,
/// different stemming / character classes / function words on the same thread.
fn pollute_vocab_op(rng: &mut Rng, t: usize, vocab: &[String]) -> Op {
    if vocab.is_empty() {
        return pollute_op(rng, t);
    }
    let lang = (*rng.pick(&LANGS)).to_string();
    let mut titles = Vec::new();
    let mut queries = Vec::new();
    for _ in 0..rng.range(1, 3) {
        let title = rng.pick(vocab).clone();
        let mut q = type_query(rng, &title);
        if rng.chance(1, 2) {
            q.push(' '); // a finished last word matches through its stem
        }
        queries.push(q);
        if rng.chance(1, 2) {
            queries.push(title.clone());
        }
        titles.push(title);
    }
    Op::Pollute { t, lang, titles, queries }
}

fn pollute_op(rng: &mut Rng, t: usize) -> Op {
    let lang = pick_lang(rng);
    let mut titles = Vec::new();
    let mut queries = Vec::new();
    for _ in 0..rng.range(1, 3) {
        match rng.below(3) {
            0 | 1 => {
                // a long word, searched with a typo / as a prefix: drives the distance matrix
                // beyond its initial capacity and leaves it full of foreign data
                let w = long_word(rng, 21, 70);
                let mut q: Vec<char> = w.chars().collect();
                if rng.chance(1, 2) {
                    let i = rng.below(q.len());
                    q[i] = 'q';
                }
                if rng.chance(1, 2) {
                    let cut = rng.range(q.len() * 3 / 4, q.len());
                    q.truncate(cut);
                }
                titles.push(format!("{} {}", w, synth_word(rng, "abc", 0, 3)));
                queries.push(q.into_iter().collect());
            }
            _ => {
                // many-word title: long match vectors
                let n = rng.range(8, 30);
                let ws: Vec<String> = (0..n).map(|_| synth_word(rng, "abcde", 1, 5)).collect();
                queries.push(ws.iter().rev().take(rng.range(1, 6)).cloned().collect::<Vec<_>>().join(" "));
                titles.push(ws.join(" "));
            }
        }
    }
    Op::Pollute { t, lang, titles, queries }
}

fn gen_hist(prop: &str, rng: &mut Rng) -> (Config, Vec<Op>) {
    let threads = if deep() { rng.range(1, 5) } else { rng.range(1, 3) };
    let capacity = *rng.pick(&[None, None, None, Some(0), Some(1), Some(2), Some(3), Some(5), Some(20)]);
    // many short, diverse runs beat a few long ones: almost half of the runs are "tiny"
    // (one or two stores of 0-3 records, 3-9 further ops)
    let tiny = !deep() && rng.chance(4, 9);
    // one run in 150 (one deep run in 6) is "big": a single store of more than a thousand (or
    // four thousand) records drawn from a tiny pool, under a limit large enough for the
    // completeness clauses to apply (|store| <= 10*limit, or limit > |store|)
    let big: usize = if matches!(prop, "C06" | "C10" | "C12" | "C01") && (if deep() { rng.chance(1, 6) } else { rng.chance(1, 150) }) { if rng.chance(1, 3) { rng.range(4100, 5000) } else { rng.range(1030, 1600) } } else { 0 };
    let tiny = tiny && big == 0;
    let n_stores = if big > 0 {
        1
    } else if tiny {
        rng.range(1, 2)
    } else {
        match rng.below(10) {
            0..=4 => 1,
            5..=7 => 2,
            8 => 3,
            _ => if deep() { rng.range(4, 6) } else { 4 },
        }
    };
    // swarm: which perturbations are enabled in this run
    let f_pollute = rng.chance(1, 2);
    let f_migrate = rng.chance(1, 2) && threads > 1;
    let f_reset = rng.chance(1, 2);
    let f_clear = rng.chance(1, 2) && prop != "C18";
    let f_prime = rng.chance(1, 2);
    let f_swing = rng.chance(1, 2);
    let f_repeat = rng.chance(1, 2);
    let f_echo = rng.chance(1, 2);
    let size_class = if tiny { 0 } else { match prop {
        "C06" => rng.weighted(&[3, 5, 2]),
        "C18" => rng.weighted(&[2, 5, 3]),
        "C12" => rng.weighted(&[4, 5, 1]),
        _ => rng.weighted(&[4, 5, 1]),
    } };
    let len = if big > 0 { rng.range(3, 10) } else if deep() { rng.range(100, 600) } else if tiny { rng.range(3, 9) } else if rng.chance(1, 3) { rng.range(3, 12) } else if rng.chance(3, 4) { rng.range(13, 60) } else { rng.range(61, 200) };
    // op mix
    let w_add = rng.range(1, 6);
    let w_clear = if f_clear { rng.range(1, 3) } else { 0 };
    let w_limit = rng.range(0, 3);
    let w_markers = rng.range(0, 2);
    let w_search = rng.range(2, 8);
    let w_prepare = if prop == "C18" { rng.range(3, 8) } else if prop == "C19" || prop == "C01" { rng.range(0, 1) } else { 0 };
    let w_migrate = if f_migrate { rng.range(1, 2) } else { 0 };
    let w_reset = if f_reset { 1 } else { 0 };
    let weights = [w_add, w_clear, w_limit, w_markers, w_search, w_prepare, w_migrate, w_reset];

    let mut ops = Vec::new();
    let mut stores: Vec<GStore> = Vec::new();
    for s in 0..n_stores {
        let lang = pick_lang(rng);
        let thread = rng.below(threads);
        let n0 = if big > 0 { big } else { match size_class {
            0 => rng.range(0, 3),
            1 => rng.range(0, 30),
            _ => if deep() { rng.range(200, 1500) } else { rng.range(31, 400) },
        } };
        let pool_size = if big > 0 { rng.range(2, 12) } else if rng.chance(1, 3) { rng.range(1, 6) } else { rng.range(3, n0.max(3) * 2) };
        let rating_mode = match prop {
            "C12" => *rng.pick(&[RatingMode::Distinct, RatingMode::FewValues, RatingMode::FewValues, RatingMode::AllEqual, RatingMode::Random, RatingMode::Distinct, RatingMode::FewValues, RatingMode::Huge]),
            "C06" | "C07" => *rng.pick(&[RatingMode::Distinct, RatingMode::Distinct, RatingMode::Distinct, RatingMode::FewValues, RatingMode::Distinct, RatingMode::Distinct, RatingMode::FewValues, RatingMode::Huge]),
            "C01" => *rng.pick(&[RatingMode::Distinct, RatingMode::FewValues, RatingMode::Random, RatingMode::AllEqual]),
            _ => *rng.pick(&[RatingMode::Distinct, RatingMode::FewValues, RatingMode::Random, RatingMode::AllEqual, RatingMode::Distinct, RatingMode::FewValues, RatingMode::Random, RatingMode::Huge]),
        };
        let mut g = GStore { s, lang: lang.clone(), thread, held: Vec::new(), pool: make_pool(rng, &lang, pool_size), next_id: 0, rating_mode, used_ratings: Vec::new(), limit: 10, dup_ids: false };
        g.dup_ids = big == 0 && n0 <= 60 && matches!(prop, "C06" | "C10" | "C01" | "C19") && rng.chance(1, 8);
        ops.push(Op::Create { s, t: thread, lang });
        if rng.chance(1, 3) {
            let (l, r) = *rng.pick(corpus::MARKERS);
            ops.push(Op::SetMarkers { s, l: l.into(), r: r.into() });
        }
        if big > 0 {
            g.limit = *rng.pick(&[200usize, 1000, 65536, n0 + 2]);
            ops.push(Op::SetLimit { s, limit: g.limit });
        } else if rng.chance(1, 2) {
            g.limit = pick_limit(rng, prop, n0);
            ops.push(Op::SetLimit { s, limit: g.limit });
        }
        for _ in 0..n0 {
            let op = g.add_op(rng);
            ops.push(op);
        }
        stores.push(g);
    }

    for _ in 0..len {
        let si = rng.below(stores.len());
        let others: Vec<String> = stores.iter().filter(|g| g.s != stores[si].s).flat_map(|g| g.held.iter().take(3).cloned()).collect();
        let g = &mut stores[si];
        let s = g.s;
        let mut changed = false;
        match rng.weighted(&weights) {
            0 => {
                if f_prime && rng.chance(1, 3) {
                    ops.push(Op::Search { s, q: separator_query(rng), deep: false });
                }
                for _ in 0..(if rng.chance(1, 5) { rng.range(2, 6) } else { 1 }) {
                    let op = g.add_op(rng);
                    ops.push(op);
                }
                changed = true;
            }
            1 => {
                if f_prime && rng.chance(1, 2) {
                    let q = g.query(rng, &others);
                    ops.push(Op::Search { s, q, deep: false });
                }
                ops.push(Op::Clear { s });
                let old = std::mem::take(&mut g.held);
                g.used_ratings.clear();
                if rng.chance(2, 3) {
                    // re-add the same titles (some or all): stale posting lists point at them
                    let keep = if rng.chance(1, 2) { old.len() } else { rng.range(0, old.len()) };
                    for title in old.into_iter().take(keep) {
                        g.next_id += 1;
                        let rating = g.rating(rng);
                        g.held.push(title.clone());
                        ops.push(Op::Add { s, id: g.next_id, title, rating });
                    }
                }
                changed = true;
            }
            2 => {
                if f_prime && rng.chance(1, 3) {
                    ops.push(Op::Search { s, q: separator_query(rng), deep: false });
                }
                let n = g.held.len();
                g.limit = if f_swing && rng.chance(1, 2) { *rng.pick(&[0usize, 1, 65536]) } else { pick_limit(rng, prop, n) };
                ops.push(Op::SetLimit { s, limit: g.limit });
                changed = true;
            }
            3 => {
                let (l, r) = *rng.pick(corpus::MARKERS);
                ops.push(Op::SetMarkers { s, l: l.into(), r: r.into() });
                changed = true;
            }
            4 => {
                if f_pollute && rng.chance(1, 4) {
                    let op = if rng.chance(1, 3) { pollute_vocab_op(rng, g.thread, &g.held) } else { pollute_op(rng, g.thread) };
                    ops.push(op);
                }
                if f_repeat && rng.chance(1, 40) {
                    // many calls in a row: counters that wrap, idle heuristics, caches that fill up
                    // bounded cost: at most about 30 000 record visits per burst, short query
                    let budget = 30_000 / (g.held.len() + 1);
                    let sizes: Vec<usize> = [255usize, 256, 257, 1023, 1024, 1025, 4097].iter().cloned().filter(|n| *n <= budget).collect();
                    if !sizes.is_empty() {
                        let n = *rng.pick(&sizes);
                        let q: String = g.query(rng, &others).chars().take(24).collect();
                        ops.push(Op::SearchBurst { s, q, n });
                    }
                }
                push_search(rng, prop, g, &others, &mut ops, f_repeat);
            }
            5 => {
                let q = g.query(rng, &others);
                let n = g.held.len();
                let size = if rng.chance(1, 8) { *rng.pick(&[0usize, 1, 10, 100]) } else { rng.range(0, n / 5 + 2) };
                ops.push(Op::Prepare { s, q, size });
            }
            6 => {
                let t = rng.below(threads);
                g.thread = t;
                ops.push(Op::Migrate { s, t });
            }
            _ => {
                ops.push(Op::FreshThread { t: g.thread });
            }
        }
        // echo: the query just used on one store is put to another store on the same thread
        // straight away (memos keyed on the query text but not on the language or the store)
        if f_echo && stores.len() > 1 {
            if let Some(Op::Search { s: s0, q, .. }) = ops.last().cloned() {
                let t0 = stores.iter().find(|g| g.s == s0).map(|g| g.thread);
                let peers: Vec<usize> = stores.iter().filter(|g| g.s != s0 && Some(g.thread) == t0).map(|g| g.s).collect();
                if !peers.is_empty() && rng.chance(1, 3) {
                    let s1 = *rng.pick(&peers);
                    ops.push(Op::Search { s: s1, q: q.clone(), deep: false });
                    if rng.chance(1, 2) {
                        ops.push(Op::Search { s: s0, q, deep: false });
                    }
                }
            }
        }
        // a search follows a state change with probability 1/2 (not always: a search is itself
        // an op that fills caches, and `add, add, search` with a cold cache must stay reachable)
        if changed && rng.chance(1, 2) {
            let g = &mut stores[si];
            if f_pollute && rng.chance(1, 6) {
                ops.push(pollute_op(rng, g.thread));
            }
            push_search(rng, prop, g, &others, &mut ops, f_repeat);
        }
    }
    (Config { scenario: "hist".into(), threads, capacity }, ops)
}

fn pick_limit(rng: &mut Rng, prop: &str, n: usize) -> usize {
    match prop {
        "C12" | "C06" => {
            if rng.chance(1, 6) { *rng.pick(corpus::LIMITS) } else { rng.range(0, n + 2) }
        }
        _ => {
            if rng.chance(1, 2) { *rng.pick(corpus::LIMITS) } else { rng.range(0, n + 2) }
        }
    }
}

fn push_search(rng: &mut Rng, prop: &str, g: &mut GStore, others: &[String], ops: &mut Vec<Op>, f_repeat: bool) {
    let q = match prop {
        "C12" if rng.chance(3, 4) => separator_query(rng),
        _ => g.query(rng, others),
    };
    let deep = prop == "C06" && (g.held.len() <= 40 || rng.chance(1, 4));
    ops.push(Op::Search { s: g.s, q: q.clone(), deep });
    if f_repeat && rng.chance(1, 6) {
        ops.push(Op::Search { s: g.s, q, deep: false });
    }
}

// ------------------------------------------------------------------------------------------------
fn gen_registry(_prop: &str, rng: &mut Rng) -> (Config, Vec<Op>) {
    // Two simulated caller threads with DISJOINT id pools: the registry is thread-local today,
    // but a process-wide registry would satisfy the property as well and must not alarm.
    // (ids that agree in their low 8 / 16 / 32 bits must still be different stores)
    let pools: [[usize; 5]; 2] = [[0, 1, 2, 1 + (1 << 32), 1 + (1 << 16)], [7, 8, usize::MAX, 7 + (1 << 32), 7 + (1 << 8)]];
    let capacity = *rng.pick(&[None, None, Some(1), Some(3), Some(20)]);
    let n_clients = if deep() { rng.range(4, 6) } else { rng.range(2, 5) };
    let mut clients: Vec<(usize, usize)> = Vec::new();
    while clients.len() < n_clients {
        let t = if clients.len() < 2 { 0 } else { rng.below(2) }; // at least two ids share thread 0
        let id = *rng.pick(&pools[t]);
        if !clients.contains(&(t, id)) {
            clients.push((t, id));
        }
    }
    struct C {
        live: bool,
        g: GStore,
    }
    let mut cs: Vec<C> = clients
        .iter()
        .enumerate()
        .map(|(i, &(t, _))| {
            let lang = pick_lang(rng);
            let pool_size = rng.range(2, 12);
            let pool = make_pool(rng, &lang, pool_size);
            C { live: false, g: GStore { s: i, lang, thread: t, held: Vec::new(), pool, next_id: 0, rating_mode: *rng.pick(&[RatingMode::Distinct, RatingMode::FewValues, RatingMode::Random]), used_ratings: Vec::new(), limit: 10, dup_ids: false } }
        })
        .collect();
    let len = if deep() { rng.range(150, 600) } else if rng.chance(1, 2) { rng.range(10, 30) } else { rng.range(31, 150) };
    let mut ops = Vec::new();
    for _ in 0..len {
        let ci = rng.below(cs.len());
        let (t, id) = clients[ci];
        let others: Vec<String> = cs.iter().filter(|c| c.g.s != ci).flat_map(|c| c.g.held.iter().take(2).cloned()).collect();
        let c = &mut cs[ci];
        if !c.live {
            if rng.chance(1, 3) {
                c.g.lang = pick_lang(rng); // re-create, possibly in another language
            }
            ops.push(Op::RCreate { t, id, lang: c.g.lang.clone() });
            c.live = true;
            c.g.held.clear();
            c.g.used_ratings.clear();
            if rng.chance(1, 2) {
                // "starts empty": ask right away
                ops.push(Op::RSearch { t, id, q: separator_query(rng) });
            }
            continue;
        }
        match rng.weighted(&[5, 2, 1, 6, 2, 1, 1]) {
            0 => {
                for _ in 0..rng.range(1, 5) {
                    if let Op::Add { id: rec, title, rating, .. } = c.g.add_op(rng) {
                        ops.push(Op::RAdd { t, id, rec, title, rating });
                    }
                }
            }
            1 => {
                let n = c.g.held.len();
                let limit = if rng.chance(1, 2) { *rng.pick(corpus::LIMITS) } else { rng.range(0, n + 2) };
                ops.push(Op::RLimit { t, id, limit });
            }
            2 => {
                let (l, r) = *rng.pick(corpus::MARKERS);
                ops.push(Op::RMarkers { t, id, l: l.into(), r: r.into() });
            }
            3 => {
                let q = c.g.query(rng, &others);
                ops.push(Op::RSearch { t, id, q });
            }
            4 => ops.push(Op::RRead { t, id }),
            5 => {
                ops.push(Op::RDestroy { t, id });
                c.live = false;
            }
            _ => ops.push(pollute_op(rng, t)),
        }
    }
    (Config { scenario: "registry".into(), threads: 2, capacity }, ops)
}

// ------------------------------------------------------------------------------------------------
fn gen_replica(_prop: &str, rng: &mut Rng) -> (Config, Vec<Op>) {
    let threads = rng.range(1, 3);
    let capacity = *rng.pick(&[None, None, Some(1), Some(3), Some(20)]);
    let lang = pick_lang(rng);
    // one quick run in 150 (and a third of the deep ones) is "big": more than a thousand records
    // under a limit of 200 or 1000, so that |store| <= 10*limit still holds
    let big = if deep() { rng.chance(1, 3) } else { rng.chance(1, 150) };
    let limit = if big { *rng.pick(&[200usize, 1000]) } else if deep() { *rng.pick(&[10usize, 50, 100, 1000]) } else { *rng.pick(&[1usize, 2, 3, 5, 10, 10, 100]) };
    let n_cap = if big { 1600 } else if deep() { 600 } else if rng.chance(1, 6) { 120 } else { 24 };
    let n = if big { rng.range(1030, 1600) } else { rng.range(2, (10 * limit).min(n_cap)) };
    let replicas = if deep() { rng.range(3, 5) } else { rng.range(2, 4) };
    // the message set: n adds with pairwise distinct ratings; titles share words so that queries hit several
    let pool_size = if big { rng.range(2, 12) } else { rng.range(2, n.max(2)) };
    let pool = make_pool(rng, &lang, pool_size);
    let mut msgs: Vec<(usize, String, usize)> = Vec::new();
    let mut ratings: Vec<usize> = Vec::new();
    let big_ratings = rng.chance(1, 10);
    for i in 0..n {
        let r = loop {
            // C07 does not bound ratings: a few runs use values far beyond 2^31
            // (the relative order of two hits must be consistent whatever the ratings are, so the
            // replica scenario — and only it — also draws from the whole range of usize)
            let r = if big_ratings && rng.chance(1, 3) { rng.next_u64() as usize } else if big_ratings { (1usize << 31) - 2 + rng.below(8) + if rng.chance(1, 2) { rng.below(1 << 40) } else { 0 } } else if rng.chance(1, 4) { rng.below(1 << 31) } else { rng.below(64) };
            if !ratings.contains(&r) {
                break r;
            }
        };
        ratings.push(r);
        msgs.push((i + 1, rng.pick(&pool).clone(), r));
    }
    let (ml, mr) = *rng.pick(corpus::MARKERS);
    let mut ops = Vec::new();
    let mut thread_of = Vec::new();
    for s in 0..replicas {
        let t = rng.below(threads);
        thread_of.push(t);
        ops.push(Op::Create { s, t, lang: lang.clone() });
        ops.push(Op::SetLimit { s, limit });
        ops.push(Op::SetMarkers { s, l: ml.into(), r: mr.into() });
    }
    // delivery: each replica has its own order; deliveries to different replicas interleave
    let mut queues: Vec<Vec<(usize, String, usize)>> = Vec::new();
    for s in 0..replicas {
        let mut q = msgs.clone();
        if s > 0 || rng.chance(1, 2) {
            match rng.below(3) {
                0 => q.reverse(),
                _ => rng.shuffle(&mut q),
            }
        }
        q.reverse(); // pop from the back
        queues.push(q);
    }
    let f_pollute = rng.chance(1, 2);
    // some replicas are searched while deliveries are still arriving (an empty-query search
    // primes the top-rated cache at the worst moment); the answers must still converge
    let f_midsearch = rng.chance(1, 2);
    let delivered_titles: Vec<String> = msgs.iter().map(|m| m.1.clone()).collect();
    loop {
        let pending: Vec<usize> = (0..replicas).filter(|&s| !queues[s].is_empty()).collect();
        if pending.is_empty() {
            break;
        }
        let s = *rng.pick(&pending);
        let (id, title, rating) = queues[s].pop().unwrap();
        ops.push(Op::Add { s, id, title, rating });
        if f_midsearch && rng.chance(1, 6) {
            let q = if rng.chance(2, 3) {
                separator_query(rng)
            } else {
                let t = rng.pick(&delivered_titles).clone();
                type_query(rng, &t)
            };
            // ... sometimes under a temporarily smaller (or zero, or huge) limit
            if rng.chance(1, 3) {
                let tmp = *rng.pick(&[0usize, 1, 1, 2, 65536]);
                ops.push(Op::SetLimit { s, limit: tmp });
                ops.push(Op::Search { s, q, deep: false });
                ops.push(Op::SetLimit { s, limit });
            } else {
                ops.push(Op::Search { s, q, deep: false });
            }
        }
        if f_pollute && rng.chance(1, 12) {
            let op = if rng.chance(1, 2) { pollute_vocab_op(rng, thread_of[s], &delivered_titles) } else { pollute_op(rng, thread_of[s]) };
            ops.push(op);
        }
        if threads > 1 && rng.chance(1, 20) {
            let t = rng.below(threads);
            thread_of[s] = t;
            ops.push(Op::Migrate { s, t });
        }
    }
    // crash and restart: a replica loses everything (clear) and is fed the whole message set again,
    // in yet another order; what it held before must not show through
    if rng.chance(1, 5) {
        for s in 0..replicas {
            if rng.chance(1, 2) {
                if rng.chance(1, 2) {
                    ops.push(Op::Search { s, q: separator_query(rng), deep: false });
                }
                ops.push(Op::Clear { s });
                let mut again = msgs.clone();
                rng.shuffle(&mut again);
                for (id, title, rating) in again {
                    ops.push(Op::Add { s, id, title, rating });
                }
            }
        }
    }
    // the compared searches come after delivery has completed
    let titles: Vec<String> = msgs.iter().map(|m| m.1.clone()).collect();
    for _ in 0..rng.range(1, 6) {
        let q = match rng.below(8) {
            0 => separator_query(rng),
            _ => {
                let t = rng.pick(&titles).clone();
                type_query(rng, &t)
            }
        };
        if f_pollute && rng.chance(1, 4) {
            let pt = rng.below(threads);
            ops.push(pollute_op(rng, pt));
        }
        if rng.chance(2, 3) {
            ops.push(Op::Converge { stores: (0..replicas).collect(), q: q.clone() });
        }
        if rng.chance(2, 3) {
            ops.push(Op::PairCheck { s: rng.below(replicas), q, sel: rng.next_u64(), pairs: rng.range(1, 3) });
        }
    }
    (Config { scenario: "replica".into(), threads, capacity }, ops)
}

// ------------------------------------------------------------------------------------------------
const SCRATCH_ALPHABET: [(char, char); 6] = [('a', 'v'), ('e', 'v'), ('b', 'c'), ('c', 'c'), ('1', 'n'), ('_', 'a')];

fn class_string(w: &str) -> String {
    w.chars()
        .map(|c| SCRATCH_ALPHABET.iter().find(|(x, _)| *x == c).map(|(_, k)| *k).unwrap_or(if c.is_alphabetic() { if "aeiouäöüаеёиоу".contains(c) { 'v' } else { 'c' } } else { 'n' }))
        .collect()
}

fn nth_word(mut i: u64) -> String {
    // 0 -> "", 1..=6 -> 1 letter, 7..=42 -> 2 letters, 43..=258 -> 3 letters
    let mut len = 0;
    let mut count = 1u64;
    while i >= count {
        i -= count;
        count *= 6;
        len += 1;
    }
    let mut cs = vec!['a'; len];
    for c in cs.iter_mut().rev() {
        *c = SCRATCH_ALPHABET[(i % 6) as usize].0;
        i /= 6;
    }
    cs.into_iter().collect()
}

fn gen_scratch(_prop: &str, rng: &mut Rng, run: u64) -> (Config, Vec<Op>) {
    let threads = rng.range(1, 3);
    let capacity = *rng.pick(&[None, Some(0), Some(1), Some(2), Some(3), Some(5), Some(20)]);
    let mut plans: Vec<Vec<Op>> = Vec::new();
    let clients = rng.range(2, 4);
    // systematic corner: this run's share of "every pair of words up to length 3"
    let mut systematic: Vec<Op> = Vec::new();
    if run < SYSTEMATIC_SCRATCH {
        let total = SCRATCH_WORDS * SCRATCH_WORDS;
        for k in 0..SCRATCH_PAIRS_PER_RUN {
            let slot = run * SCRATCH_PAIRS_PER_RUN + k;
            if slot >= total {
                break;
            }
            // fixed permutation of the pair space (multiplication by a unit modulo total)
            let p = (slot.wrapping_mul(48_271)) % total;
            let (a, b) = (nth_word(p / SCRATCH_WORDS), nth_word(p % SCRATCH_WORDS));
            let t = rng.below(threads);
            systematic.push(if rng.chance(1, 4) { Op::Jacc { t, a, b } } else { Op::Dist { t, ca: class_string(&a), cb: class_string(&b), a, b } });
        }
    }
    for _ in 0..clients {
        let t = rng.below(threads);
        let n = if deep() { rng.range(40, 120) } else if rng.chance(1, 2) { rng.range(2, 8) } else { rng.range(9, 40) };
        // one client in 40 (one in 8 in deep runs) uses words of 600..1300 characters
        let huge = if deep() { rng.chance(1, 8) } else { rng.chance(1, 40) };
        let n = if huge { n.min(8) } else { n };
        let long_max = if huge { 1300 } else if deep() { 250 } else { 70 };
        let mut plan = Vec::new();
        for k in 0..n {
            // lengths alternate short and long so that growth, re-init and shrink-after-grow occur
            let long = if rng.chance(1, 5) { rng.chance(1, 2) } else { k % 2 == 1 };
            let alph = if rng.chance(1, 4) {
                *rng.pick(corpus::ALPHABETS)
            } else {
                *rng.pick(&["aebc1_", "aebc1_", "ab", "abcdefghijklmnop", "aeiou", "bcdfg", "a1_", "аеёбв", "abcdefghijklmnopqrstuvwxyz", "abcdefghijklmnopqrstuvwxyz0123456789äöüßабвгдеёжзийклмнопрстуфхцчшщ"])
            };
            let a = if long && huge { synth_word(rng, alph, 600, long_max) } else if long { synth_word(rng, alph, 15, long_max) } else if huge { synth_word(rng, alph, 21, 120) } else { synth_word(rng, alph, 0, 4) };
            let b = match rng.below(8) {
                6 => {
                    // a prefix or a suffix of the first word
                    let cs: Vec<char> = a.chars().collect();
                    let k = rng.range(0, cs.len());
                    if rng.chance(1, 2) { cs[..k].iter().collect() } else { cs[cs.len() - k..].iter().collect() }
                }
                7 => synth_word(rng, alph, 1, 3),
                0 => a.clone(),
                1 | 2 => mutate(rng, &a, alph),
                3 => {
                    if long { synth_word(rng, alph, 15, long_max) } else { synth_word(rng, alph, 0, 4) }
                }
                4 => synth_word(rng, alph, 0, 4),
                _ => synth_word(rng, alph, 0, 30),
            };
            match rng.below(12) {
                0..=4 => {
                    // one comparison in six has an "unfinished" word (what a typing user's last word is):
                    // the distance is a function of the words and their classes, not of that flag
                    let mut ca = class_string(&a);
                    let mut cb = class_string(&b);
                    if rng.chance(1, 6) {
                        ca.push('~');
                    }
                    if rng.chance(1, 12) {
                        cb.push('~');
                    }
                    let again = rng.chance(1, 8);
                    let (a2, b2) = (a.clone(), b.clone());
                    plan.push(Op::Dist { t, ca, cb, a, b });
                    if again {
                        // the same spelling pair straight away under other character classes (what two
                        // languages make of one word), or unclassified
                        let other: String = if rng.chance(1, 2) { "a".repeat(a2.chars().count()) } else { class_string(&a2).chars().map(|c| if c == 'v' { 'c' } else if c == 'c' { 'v' } else { c }).collect() };
                        let cb2 = if rng.chance(1, 2) { "a".repeat(b2.chars().count()) } else { class_string(&b2) };
                        plan.push(Op::Dist { t, ca: other, cb: cb2, a: a2, b: b2 });
                    }
                }
                5..=7 => plan.push(Op::Jacc { t, a, b }),
                8 => plan.push(Op::WMatch { t, r: a, q: b, fin: rng.chance(1, 2) }),
                9 => plan.push(Op::JCheck { t, r: a, q: b, fin: rng.chance(1, 2) }),
                _ => {
                    // a family of words of one length that share a long prefix and differ in the tail,
                    // compared one after the other (caches keyed on a truncated or hashed word)
                    // (the tail brings characters the prefix does not have, or the words would be equal as sets)
                    let pre_alph = *rng.pick(&["a", "ab", "0", "aeb", alph]);
                    let tail_alph = *rng.pick(&["xyz12345678", "mnopqrstuvw", "pqrstuvwxy0123456789", alph]);
                    let base = synth_word(rng, pre_alph, 16, 40);
                    let tail = rng.range(1, 5);
                    let fin = rng.chance(1, 2);
                    let mut prev_tail = String::new();
                    for _ in 0..rng.range(2, 4) {
                        let tq = synth_word(rng, tail_alph, tail, tail);
                        let tr = match rng.below(3) {
                            0 => tq.clone(),
                            1 if !prev_tail.is_empty() => prev_tail.clone(),
                            _ => synth_word(rng, tail_alph, tail, tail),
                        };
                        prev_tail = tq.clone();
                        let (r, q) = (format!("{}{}", base, tr), format!("{}{}", base, tq));
                        plan.push(if rng.chance(1, 2) { Op::JCheck { t, r, q, fin } } else { Op::WMatch { t, r, q, fin } });
                    }
                }
            }
        }
        // many identical cheap calls in a row, right after something else and right before something
        // else: counters that wrap at 2^8 / 2^16, idle heuristics that fire after 2^10 quiet calls
        if rng.chance(1, 6) && !plan.is_empty() {
            let n = if rng.chance(1, 4) { *rng.pick(&[65534usize, 65535, 65536, 65537, 32766, 32767, 32768, 32769]) } else { *rng.pick(&[254usize, 255, 256, 257, 1023, 1024, 1025, 2048, 4100, 16383, 16384, 16385]) };
            let alph = *rng.pick(&["aebc1_", "ab", "bcdfg"]);
            let a = synth_word(rng, alph, 1, 4);
            let b = mutate(rng, &a, alph);
            let at = rng.range(1, plan.len());
            if rng.chance(1, 2) {
                plan.insert(at, Op::Burst { t, ca: class_string(&a), cb: class_string(&b), a, b, n });
            } else {
                // the same on the word matcher's thread-local pre-filter, followed by words whose tails
                // use characters this thread has not seen yet
                let rare = *rng.pick(&["ьэюяшщ", "αβγδεζ", "ĸĳŋđħŧ", "٠١٢٣٤٥"]);
                let base_alph = *rng.pick(&["a", "ab", "mail"]);
                let base = synth_word(rng, base_alph, 2, 6);
                let fin = rng.chance(1, 2);
                let mut seq = vec![Op::JBurst { t, r: a.clone(), q: b.clone(), fin, n }];
                for _ in 0..rng.range(1, 3) {
                    let tq = synth_word(rng, rare, 1, 3);
                    let tr = if rng.chance(1, 2) { synth_word(rng, "xyz", 1, 2) } else { synth_word(rng, rare, 1, 3) };
                    seq.push(Op::JCheck { t, r: format!("{}{}", base, tr), q: format!("{}{}", base, tq), fin });
                }
                for (k, o) in seq.into_iter().enumerate() {
                    plan.insert(at + k, o);
                }
            }
        }
        plans.push(plan);
    }
    if !systematic.is_empty() {
        plans.push(systematic);
    }
    // mid-call preemption: a caller thread is parked at a scheduling point inside the word matcher
    // while another caller thread makes a whole call (own PRNG stream: the clients' plans stay as
    // they were before this fault kind existed)
    if threads >= 2 {
        let mut prng = Rng::from_u64(crate::rng::mix(rng.next_u64(), 0x9e37_79b9_7f4a_7c15));
        let mut plan = Vec::new();
        for _ in 0..prng.range(1, 6) {
            let t = prng.below(threads);
            let t2 = (t + 1 + prng.below(threads - 1)) % threads;
            let jac = prng.chance(1, 2);
            // words with repeated characters in different multiplicities, families sharing a prefix,
            // and ordinary words: a verdict near the thresholds is what a disturbed scratch flips
            let alph = *prng.pick(&["ab", "abc", "aebc1_", "abcdefghijklmnop", "аеёбв"]);
            let mut pair = |prng: &mut Rng| {
                let a = if prng.chance(1, 3) { synth_word(prng, alph, 9, 40) } else { synth_word(prng, alph, 2, 8) };
                let b = match prng.below(4) {
                    0 => a.clone(),
                    1 => {
                        // the same set of characters in other multiplicities
                        let cs: Vec<char> = a.chars().collect();
                        let n = cs.len().max(1);
                        (0..n).map(|i| cs[(i * 7 + 3) % n]).map(|c| if prng.chance(1, 3) { cs[0] } else { c }).collect()
                    }
                    _ => mutate(prng, &a, alph),
                };
                (a, b)
            };
            let (r, q) = pair(&mut prng);
            let (r2, q2) = pair(&mut prng);
            let at = if prng.chance(1, 2) { 1 } else { prng.range(1, 6) };
            plan.push(Op::Preempt { t, t2, jac, r, q, fin: prng.chance(2, 3), r2, q2, fin2: prng.chance(2, 3), at });
        }
        plans.push(plan);
    }
    // the scheduler interleaves the clients' planned comparisons: call order is the schedule
    let mut ops = Vec::new();
    for p in plans.iter_mut() {
        p.reverse();
    }
    loop {
        let pending: Vec<usize> = (0..plans.len()).filter(|&i| !plans[i].is_empty()).collect();
        if pending.is_empty() {
            break;
        }
        let i = *rng.pick(&pending);
        ops.push(plans[i].pop().unwrap());
        if rng.chance(1, 60) {
            ops.push(Op::FreshThread { t: rng.below(threads) });
        }
    }
    (Config { scenario: "scratch".into(), threads, capacity }, ops)
}

fn mutate(rng: &mut Rng, w: &str, alph: &str) -> String {
    let mut cs: Vec<char> = w.chars().collect();
    let al: Vec<char> = alph.chars().collect();
    for _ in 0..rng.range(1, 3) {
        if cs.is_empty() {
            cs.push(*rng.pick(&al));
            continue;
        }
        let i = rng.below(cs.len());
        match rng.below(5) {
            0 => cs[i] = *rng.pick(&al),
            1 => cs.insert(i, *rng.pick(&al)),
            2 => {
                cs.remove(i);
            }
            3 => {
                let c = cs[i];
                cs.insert(i, c); // doubled letter
            }
            _ => {
                if i + 1 < cs.len() {
                    cs.swap(i, i + 1);
                }
            }
        }
    }
    cs.into_iter().collect()
}
