//! Operations are plain data. A run is `Config + Vec<Op>`; the generator produces it from
//! the seed, the executor consumes it; replay and minimisation work on the explicit list.

use serde_json::{json, Map, Value};

#[derive(Clone, Debug, PartialEq)]
pub struct Config {
    pub scenario: String,
    /// number of long-lived simulated caller threads
    pub threads: usize,
    /// capacity knob for the scratch buffers (None = stock 20); honoured only by the hooks build
    pub capacity: Option<usize>,
}

#[derive(Clone, Debug, PartialEq)]
pub enum Op {
    // ---- Store clients (direct Rust API) -------------------------------------------------
    Create { s: usize, t: usize, lang: String },
    Add { s: usize, id: usize, title: String, rating: usize },
    Clear { s: usize },
    SetLimit { s: usize, limit: usize },
    SetMarkers { s: usize, l: String, r: String },
    /// `deep`: additionally evaluate the per-record decomposition oracle (C06)
    Search { s: usize, q: String, deep: bool },
    Prepare { s: usize, q: String, size: usize },
    /// the same search `n` times in a row (wrap-around / idle-timeout style state needs many calls)
    SearchBurst { s: usize, q: String, n: usize },
    /// store `s` searches `q` and its caller thread is parked at the `at`-th scheduling point inside
    /// that search; meanwhile store `s2` (on another caller thread) runs a whole search `q2`; then
    /// the first search is resumed. (Shipping build, same thread or same store: one after the other.)
    PSearch { s: usize, s2: usize, q: String, q2: String, at: usize },
    // ---- perturbations of volatile state ---------------------------------------------------
    /// move the store to another long-lived sim-thread (it meets different thread-local scratch)
    Migrate { s: usize, t: usize },
    /// replace sim-thread `t` by a brand-new OS thread: every thread-local starts over
    FreshThread { t: usize },
    /// a foreign client on thread `t`: builds a throw-away store and searches it
    Pollute { t: usize, lang: String, titles: Vec<String>, queries: Vec<String> },
    // ---- replica scenario ----------------------------------------------------------------------
    /// all listed stores must answer `q` identically
    Converge { stores: Vec<usize>, q: String },
    /// pairs of hits of store `s` for `q` (chosen by `sel`) are re-delivered alone, in both orders
    PairCheck { s: usize, q: String, sel: u64, pairs: usize },
    // ---- registry clients (top-level API, thread-local registry) -------------------------
    RCreate { t: usize, id: usize, lang: String },
    RDestroy { t: usize, id: usize },
    RAdd { t: usize, id: usize, rec: usize, title: String, rating: usize },
    RLimit { t: usize, id: usize, limit: usize },
    RMarkers { t: usize, id: usize, l: String, r: String },
    RSearch { t: usize, id: usize, q: String },
    RRead { t: usize, id: usize },
    // ---- scratch scenario (hooks build only) ---------------------------------------------
    /// distance on the long-lived instance of thread `t`; classes: one letter per char (c v n a)
    Dist { t: usize, a: String, ca: String, b: String, cb: String },
    Jacc { t: usize, a: String, b: String },
    /// `n` identical distance calls in a row on the long-lived instance
    Burst { t: usize, a: String, ca: String, b: String, cb: String, n: usize },
    /// the library's own thread-local scratch through `word_match`
    WMatch { t: usize, r: String, q: String, fin: bool },
    /// the Jaccard pre-filter of the word matcher (thread-local scratch) on its own
    JCheck { t: usize, r: String, q: String, fin: bool },
    /// `n` identical pre-filter calls in a row (thread-local scratch)
    JBurst { t: usize, r: String, q: String, fin: bool, n: usize },
    /// thread `t` is parked at its `at`-th scheduling point inside a word_match (`jac`: pre-filter)
    /// call on (r,q); meanwhile thread `t2` runs the same kind of call on (r2,q2) to the end; then
    /// `t` is resumed. Both answers must be what a thread that compared nothing before gives.
    Preempt { t: usize, t2: usize, jac: bool, r: String, q: String, fin: bool, r2: String, q2: String, fin2: bool, at: usize },
}

impl Op {
    pub fn kind(&self) -> &'static str {
        match self {
            Op::Create { .. } => "create",
            Op::Add { .. } => "add",
            Op::Clear { .. } => "clear",
            Op::SetLimit { .. } => "limit",
            Op::SetMarkers { .. } => "markers",
            Op::Search { .. } => "search",
            Op::Prepare { .. } => "prepare",
            Op::SearchBurst { .. } => "search_burst",
            Op::PSearch { .. } => "p_search",
            Op::Burst { .. } => "burst",
            Op::Migrate { .. } => "migrate",
            Op::FreshThread { .. } => "fresh_thread",
            Op::Pollute { .. } => "pollute",
            Op::Converge { .. } => "converge",
            Op::PairCheck { .. } => "pair_check",
            Op::RCreate { .. } => "r_create",
            Op::RDestroy { .. } => "r_destroy",
            Op::RAdd { .. } => "r_add",
            Op::RLimit { .. } => "r_limit",
            Op::RMarkers { .. } => "r_markers",
            Op::RSearch { .. } => "r_search",
            Op::RRead { .. } => "r_read",
            Op::Dist { .. } => "dist",
            Op::Jacc { .. } => "jacc",
            Op::WMatch { .. } => "wmatch",
            Op::JCheck { .. } => "jcheck",
            Op::Preempt { .. } => "preempt",
            Op::JBurst { .. } => "jburst",
        }
    }

    pub fn to_json(&self) -> Value {
        match self {
            Op::Create { s, t, lang } => json!({"op":"create","s":s,"t":t,"lang":lang}),
            Op::Add { s, id, title, rating } => json!({"op":"add","s":s,"id":id,"title":title,"rating":rating}),
            Op::Clear { s } => json!({"op":"clear","s":s}),
            Op::SetLimit { s, limit } => json!({"op":"limit","s":s,"limit":limit}),
            Op::SetMarkers { s, l, r } => json!({"op":"markers","s":s,"l":l,"r":r}),
            Op::Search { s, q, deep } => json!({"op":"search","s":s,"q":q,"deep":deep}),
            Op::Prepare { s, q, size } => json!({"op":"prepare","s":s,"q":q,"size":size}),
            Op::SearchBurst { s, q, n } => json!({"op":"search_burst","s":s,"q":q,"n":n}),
            Op::Burst { t, a, ca, b, cb, n } => json!({"op":"burst","t":t,"a":a,"ca":ca,"b":b,"cb":cb,"n":n}),
            Op::Migrate { s, t } => json!({"op":"migrate","s":s,"t":t}),
            Op::FreshThread { t } => json!({"op":"fresh_thread","t":t}),
            Op::Pollute { t, lang, titles, queries } => json!({"op":"pollute","t":t,"lang":lang,"titles":titles,"queries":queries}),
            Op::Converge { stores, q } => json!({"op":"converge","stores":stores,"q":q}),
            Op::PairCheck { s, q, sel, pairs } => json!({"op":"pair_check","s":s,"q":q,"sel":sel.to_string(),"pairs":pairs}),
            Op::RCreate { t, id, lang } => json!({"op":"r_create","t":t,"id":id.to_string(),"lang":lang}),
            Op::RDestroy { t, id } => json!({"op":"r_destroy","t":t,"id":id.to_string()}),
            Op::RAdd { t, id, rec, title, rating } => json!({"op":"r_add","t":t,"id":id.to_string(),"rec":rec,"title":title,"rating":rating}),
            Op::RLimit { t, id, limit } => json!({"op":"r_limit","t":t,"id":id.to_string(),"limit":limit}),
            Op::RMarkers { t, id, l, r } => json!({"op":"r_markers","t":t,"id":id.to_string(),"l":l,"r":r}),
            Op::RSearch { t, id, q } => json!({"op":"r_search","t":t,"id":id.to_string(),"q":q}),
            Op::RRead { t, id } => json!({"op":"r_read","t":t,"id":id.to_string()}),
            Op::Dist { t, a, ca, b, cb } => json!({"op":"dist","t":t,"a":a,"ca":ca,"b":b,"cb":cb}),
            Op::Jacc { t, a, b } => json!({"op":"jacc","t":t,"a":a,"b":b}),
            Op::WMatch { t, r, q, fin } => json!({"op":"wmatch","t":t,"r":r,"q":q,"fin":fin}),
            Op::JCheck { t, r, q, fin } => json!({"op":"jcheck","t":t,"r":r,"q":q,"fin":fin}),
            Op::JBurst { t, r, q, fin, n } => json!({"op":"jburst","t":t,"r":r,"q":q,"fin":fin,"n":n}),
            Op::PSearch { s, s2, q, q2, at } => json!({"op":"p_search","s":s,"s2":s2,"q":q,"q2":q2,"at":at}),
            Op::Preempt { t, t2, jac, r, q, fin, r2, q2, fin2, at } => json!({"op":"preempt","t":t,"t2":t2,"jac":jac,"r":r,"q":q,"fin":fin,"r2":r2,"q2":q2,"fin2":fin2,"at":at}),
        }
    }

    pub fn from_json(v: &Value) -> Result<Op, String> {
        let o = v.as_object().ok_or("op is not an object")?;
        let kind = gs(o, "op")?;
        Ok(match kind.as_str() {
            "create" => Op::Create { s: gu(o, "s")?, t: gu(o, "t")?, lang: gs(o, "lang")? },
            "add" => Op::Add { s: gu(o, "s")?, id: gu(o, "id")?, title: gs(o, "title")?, rating: gu(o, "rating")? },
            "clear" => Op::Clear { s: gu(o, "s")? },
            "limit" => Op::SetLimit { s: gu(o, "s")?, limit: gu(o, "limit")? },
            "markers" => Op::SetMarkers { s: gu(o, "s")?, l: gs(o, "l")?, r: gs(o, "r")? },
            "search" => Op::Search { s: gu(o, "s")?, q: gs(o, "q")?, deep: o.get("deep").and_then(|x| x.as_bool()).unwrap_or(false) },
            "prepare" => Op::Prepare { s: gu(o, "s")?, q: gs(o, "q")?, size: gu(o, "size")? },
            "search_burst" => Op::SearchBurst { s: gu(o, "s")?, q: gs(o, "q")?, n: gu(o, "n")? },
            "burst" => Op::Burst { t: gu(o, "t")?, a: gs(o, "a")?, ca: gs(o, "ca")?, b: gs(o, "b")?, cb: gs(o, "cb")?, n: gu(o, "n")? },
            "migrate" => Op::Migrate { s: gu(o, "s")?, t: gu(o, "t")? },
            "fresh_thread" => Op::FreshThread { t: gu(o, "t")? },
            "pollute" => Op::Pollute { t: gu(o, "t")?, lang: gs(o, "lang")?, titles: gvs(o, "titles")?, queries: gvs(o, "queries")? },
            "converge" => Op::Converge {
                stores: o.get("stores").and_then(|x| x.as_array()).ok_or("stores")?.iter().map(|x| x.as_u64().unwrap_or(0) as usize).collect(),
                q: gs(o, "q")?,
            },
            "pair_check" => Op::PairCheck { s: gu(o, "s")?, q: gs(o, "q")?, sel: gs(o, "sel")?.parse::<u64>().map_err(|e| e.to_string())?, pairs: gu(o, "pairs")? },
            "r_create" => Op::RCreate { t: gu(o, "t")?, id: gid(o)?, lang: gs(o, "lang")? },
            "r_destroy" => Op::RDestroy { t: gu(o, "t")?, id: gid(o)? },
            "r_add" => Op::RAdd { t: gu(o, "t")?, id: gid(o)?, rec: gu(o, "rec")?, title: gs(o, "title")?, rating: gu(o, "rating")? },
            "r_limit" => Op::RLimit { t: gu(o, "t")?, id: gid(o)?, limit: gu(o, "limit")? },
            "r_markers" => Op::RMarkers { t: gu(o, "t")?, id: gid(o)?, l: gs(o, "l")?, r: gs(o, "r")? },
            "r_search" => Op::RSearch { t: gu(o, "t")?, id: gid(o)?, q: gs(o, "q")? },
            "r_read" => Op::RRead { t: gu(o, "t")?, id: gid(o)? },
            "dist" => Op::Dist { t: gu(o, "t")?, a: gs(o, "a")?, ca: gs(o, "ca")?, b: gs(o, "b")?, cb: gs(o, "cb")? },
            "jacc" => Op::Jacc { t: gu(o, "t")?, a: gs(o, "a")?, b: gs(o, "b")? },
            "jburst" => Op::JBurst { t: gu(o, "t")?, r: gs(o, "r")?, q: gs(o, "q")?, fin: o.get("fin").and_then(|x| x.as_bool()).unwrap_or(true), n: gu(o, "n")? },
            "jcheck" => Op::JCheck { t: gu(o, "t")?, r: gs(o, "r")?, q: gs(o, "q")?, fin: o.get("fin").and_then(|x| x.as_bool()).unwrap_or(true) },
            "p_search" => Op::PSearch { s: gu(o, "s")?, s2: gu(o, "s2")?, q: gs(o, "q")?, q2: gs(o, "q2")?, at: gu(o, "at")? },
            "preempt" => Op::Preempt {
                t: gu(o, "t")?, t2: gu(o, "t2")?, jac: o.get("jac").and_then(|x| x.as_bool()).unwrap_or(false),
                r: gs(o, "r")?, q: gs(o, "q")?, fin: o.get("fin").and_then(|x| x.as_bool()).unwrap_or(true),
                r2: gs(o, "r2")?, q2: gs(o, "q2")?, fin2: o.get("fin2").and_then(|x| x.as_bool()).unwrap_or(true), at: gu(o, "at")?,
            },
            "wmatch" => Op::WMatch { t: gu(o, "t")?, r: gs(o, "r")?, q: gs(o, "q")?, fin: o.get("fin").and_then(|x| x.as_bool()).unwrap_or(true) },
            other => return Err(format!("unknown op kind {}", other)),
        })
    }
}

fn gs(o: &Map<String, Value>, k: &str) -> Result<String, String> {
    o.get(k).and_then(|x| x.as_str()).map(|s| s.to_string()).ok_or_else(|| format!("missing string field {}", k))
}
fn gu(o: &Map<String, Value>, k: &str) -> Result<usize, String> {
    o.get(k).and_then(|x| x.as_u64()).map(|s| s as usize).ok_or_else(|| format!("missing integer field {}", k))
}
/// registry ids may be usize::MAX; they travel as decimal strings
fn gid(o: &Map<String, Value>) -> Result<usize, String> {
    gs(o, "id")?.parse::<usize>().map_err(|e| e.to_string())
}
fn gvs(o: &Map<String, Value>, k: &str) -> Result<Vec<String>, String> {
    Ok(o.get(k)
        .and_then(|x| x.as_array())
        .ok_or_else(|| format!("missing array field {}", k))?
        .iter()
        .map(|x| x.as_str().unwrap_or("").to_string())
        .collect())
}

impl Config {
    pub fn to_json(&self) -> Value {
        json!({"scenario": self.scenario, "threads": self.threads, "capacity": self.capacity})
    }
    pub fn from_json(v: &Value) -> Result<Config, String> {
        let o = v.as_object().ok_or("config is not an object")?;
        Ok(Config {
            scenario: gs(o, "scenario")?,
            threads: gu(o, "threads")?,
            capacity: o.get("capacity").and_then(|x| x.as_u64()).map(|x| x as usize),
        })
    }
}

pub fn ops_to_json(ops: &[Op]) -> Value {
    Value::Array(ops.iter().map(|o| o.to_json()).collect())
}

pub fn ops_from_json(v: &Value) -> Result<Vec<Op>, String> {
    v.as_array().ok_or("ops is not an array")?.iter().map(Op::from_json).collect()
}
