//! The executor: consumes `Config + [Op]`, drives the real library on simulated caller threads,
//! keeps the logical-state models, evaluates the oracles of the property under check, and
//! records the history (log + digest). It draws nothing from any PRNG and reads no clock.

use std::collections::{BTreeMap, BTreeSet, HashMap};

use lucid_suggest_core as lib;
use lib::{Lang, Store};

use crate::kernel::{pristine, PanicInfo, SimThread};
use crate::ops::{Config, Op};
use crate::rng::{mix, Fnv};
use crate::sut::{self, fmt_hits, Hits, Model};

pub const PROPS: [&str; 10] = ["C01", "C06", "C07", "C10", "C12", "C16", "C17", "C18", "C19", "C20"];

pub const FAULT_KINDS: [&str; 13] = [
    "scratch_reset", "scratch_pollute", "migrate", "capacity_knob", "clear_readd", "cache_prime",
    "limit_swing", "repeat", "destroy_recreate", "reorder", "drop_to_pair", "long_short_alternation",
    "preempt_mid_call",
];
pub const F_RESET: usize = 0;
pub const F_POLLUTE: usize = 1;
pub const F_MIGRATE: usize = 2;
pub const F_CAPACITY: usize = 3;
pub const F_CLEAR_READD: usize = 4;
pub const F_CACHE_PRIME: usize = 5;
pub const F_LIMIT_SWING: usize = 6;
pub const F_REPEAT: usize = 7;
pub const F_DESTROY_RECREATE: usize = 8;
pub const F_REORDER: usize = 9;
pub const F_DROP_TO_PAIR: usize = 10;
pub const F_LONG_SHORT: usize = 11;
pub const F_PREEMPT: usize = 12;

pub const PROBE_NAMES: [&str; 8] = [
    "matrix_grow", "top_cache_hit", "top_cache_fill", "limitsort_truncate", "split_record", "split_query", "index_capped", "jaccard_grow",
];

#[derive(Clone, Debug, PartialEq)]
pub struct Violation {
    pub prop: String,
    pub oracle: String,
    pub at_op: usize,
    /// what identifies "the same violation" for minimisation and the known-findings file
    pub key: String,
    pub observed: String,
    pub expected: String,
    pub note: String,
}

pub struct RunOutcome {
    pub digest: u64,
    pub executed: usize,
    pub skipped: usize,
    pub evals: u64,
    pub violation: Option<Violation>,
    pub stopped_by_panic: Option<PanicInfo>,
    pub faults: [u64; FAULT_KINDS.len()],
    pub probes: [u64; 8],
    pub nontrivial: bool,
    pub states: BTreeSet<u64>,
    pub kind_trigrams: BTreeSet<u64>,
    pub log: Vec<String>,
    pub searches: u64,
    pub searches_with_hits: u64,
    /// indices of ops that were skipped as invalid (used by the minimiser to drop them)
    pub skipped_ix: Vec<usize>,
}

struct Slot {
    store: Option<Store>,
    model: Model,
    thread: usize,
    searched_before: bool,
    changed_after_search: bool,
    /// an empty-query search ran since the last membership/limit change
    primed: bool,
    ever_cleared: bool,
    adds_since_clear: usize,
    adds_since_empty_search: usize,
    last_search: Option<String>,
    /// order in which this store received its records (ids), for the C07 "reorder" measure
    pub arrival: Vec<usize>,
}

struct RegSlot {
    model: Model,
    /// stand-alone store driven with the same per-id history (direct API)
    standalone: Option<Store>,
    last_hits: Hits,
    destroyed_before: bool,
}

pub struct Exec<'a> {
    pub prop: &'a str,
    cfg: &'a Config,
    threads: Vec<SimThread>,
    model_thread: SimThread,
    next_generation: usize,
    stores: BTreeMap<usize, Slot>,
    registry: BTreeMap<(usize, usize), RegSlot>,
    reg_dead: BTreeSet<(usize, usize)>,
    polluted: Vec<bool>,
    langs: HashMap<String, Lang>,
    pub out: RunOutcome,
    keep_log: bool,
    fnv: Fnv,
    last_kinds: [u64; 2],
    saw_setting_change: bool,
    /// scratch scenario: per thread, length of the previous call's longer word, and whether growth happened
    pub scratch_prev_len: Vec<usize>,
    pub scratch_grew: Vec<bool>,
}

fn set_capacity(_cap: Option<usize>) {
    #[cfg(feature = "hooks")]
    lib::verif::set_capacity_override(_cap);
}

impl<'a> Exec<'a> {
    pub fn new(prop: &'a str, cfg: &'a Config, keep_log: bool) -> Exec<'a> {
        set_capacity(cfg.capacity);
        let n = cfg.threads.max(1).min(8);
        let threads = (0..n).map(|i| SimThread::spawn(i)).collect();
        Exec {
            prop,
            cfg,
            threads,
            model_thread: SimThread::spawn(1000),
            next_generation: n,
            stores: BTreeMap::new(),
            registry: BTreeMap::new(),
            reg_dead: BTreeSet::new(),
            polluted: vec![false; n],
            langs: HashMap::new(),
            out: RunOutcome {
                digest: 0,
                executed: 0,
                skipped: 0,
                evals: 0,
                violation: None,
                stopped_by_panic: None,
                faults: [0; FAULT_KINDS.len()],
                probes: [0; 8],
                nontrivial: false,
                states: BTreeSet::new(),
                kind_trigrams: BTreeSet::new(),
                log: Vec::new(),
                searches: 0,
                searches_with_hits: 0,
                skipped_ix: Vec::new(),
            },
            keep_log,
            fnv: Fnv::new(),
            last_kinds: [0, 0],
            saw_setting_change: false,
            scratch_prev_len: vec![0; n],
            scratch_grew: vec![false; n],
        }
    }

    fn on(&self, p: &str) -> bool {
        self.prop == p
    }
    pub fn on_prop(&self, p: &str) -> bool {
        self.prop == p
    }

    /// Reference computations run on a brand-new OS thread with the stock capacity.
    fn pristine<R: Send + 'static>(&self, f: impl FnOnce() -> R + Send + 'static) -> Result<R, PanicInfo> {
        set_capacity(None);
        let r = pristine(f);
        set_capacity(self.cfg.capacity);
        r
    }

    fn lang(&mut self, tag: &str) -> &Lang {
        if !self.langs.contains_key(tag) {
            // building a language runs library code: a panic there is reported through the
            // simulated thread that builds the same language, here we fall back to the empty one
            let l = crate::kernel::guarded(|| sut::make_lang(tag)).unwrap_or_else(|_| Lang::new());
            self.langs.insert(tag.to_string(), l);
        }
        &self.langs[tag]
    }

    fn record(&mut self, ix: usize, op: &Op, result: &str) {
        self.fnv.str(op.kind());
        self.fnv.str(result);
        if self.keep_log {
            self.out.log.push(format!("#{} {} -> {}", ix, op.to_json(), result));
        }
        let k = crate::rng::fnv_str(op.kind());
        self.out.kind_trigrams.insert(mix(mix(self.last_kinds[0], self.last_kinds[1]), k));
        self.last_kinds = [self.last_kinds[1], k];
    }

    fn violate(&mut self, prop: &str, oracle: &str, at_op: usize, key_detail: &str, observed: String, expected: String, note: String) {
        if self.out.violation.is_some() || self.prop != prop {
            return;
        }
        self.out.violation = Some(Violation {
            prop: prop.to_string(),
            oracle: oracle.to_string(),
            at_op,
            key: if key_detail.is_empty() { oracle.to_string() } else { format!("{}|{}", oracle, key_detail) },
            observed,
            expected,
            note,
        });
    }

    /// A panic raised by the library while executing op `ix`.
    fn on_panic(&mut self, ix: usize, p: &PanicInfo) {
        if p.is_hook_assert() {
            self.violate("C19", "C19.hook_assert", ix, &p.loc.clone(), p.render(), "every unchecked index in range".into(), String::new());
        } else {
            self.violate("C01", "C01.panic", ix, &p.loc.clone(), p.render(), "returns normally".into(), String::new());
        }
        self.out.stopped_by_panic = Some(p.clone());
    }

    fn run_store<R: Send + 'static>(&mut self, s: usize, f: impl FnOnce(&mut Store) -> R + Send + 'static) -> Result<R, PanicInfo> {
        let slot = self.stores.get_mut(&s).expect("store slot");
        let store = slot.store.take().expect("store present");
        let t = &self.threads[slot.thread];
        match t.run(move || {
            let mut st = store;
            let r = f(&mut st);
            (st, r)
        }) {
            Ok((st, r)) => {
                slot.store = Some(st);
                Ok(r)
            }
            Err(p) => Err(p),
        }
    }

    fn collect_probes(&mut self) {
        #[cfg(feature = "hooks")]
        {
            for t in self.threads.iter() {
                if let Ok(c) = t.run(|| lib::verif::take_probes()) {
                    for i in 0..8 {
                        self.out.probes[i] = self.out.probes[i].wrapping_add(c[i]);
                    }
                }
            }
        }
    }

    pub fn finish(mut self) -> RunOutcome {
        self.collect_probes();
        if self.cfg.capacity.is_some() && self.cfg.capacity != Some(20) {
            self.out.faults[F_CAPACITY] = 1;
        }
        // registry state is thread-local to sim threads that die with this Exec; nothing to clean.
        set_capacity(None);
        self.out.digest = self.fnv.0;
        self.out
    }

    fn abstract_state(&mut self, s: usize) {
        let slot = &self.stores[&s];
        let n = slot.model.recs.len();
        let l = slot.model.limit;
        let bucket = |x: usize| -> u64 {
            match x {
                0 => 0,
                1 => 1,
                2..=3 => 2,
                4..=10 => 3,
                11..=30 => 4,
                31..=100 => 5,
                _ => 6,
            }
        };
        let rel: u64 = if l == 0 { 0 } else if n < l { 1 } else if n == l { 2 } else if n <= 2 * l { 3 } else if n <= 10 * l { 4 } else { 5 };
        let mut h = Fnv::new();
        h.u64(bucket(n));
        h.u64(rel);
        h.u64(slot.primed as u64);
        h.u64(bucket(slot.adds_since_clear));
        h.u64(slot.ever_cleared as u64);
        h.u64(self.polluted[slot.thread] as u64);
        h.u64(self.threads[slot.thread].generation.min(8) as u64);
        self.out.states.insert(h.0);
    }

    // ------------------------------------------------------------------------------------------
    pub fn step(&mut self, ix: usize, op: &Op) {
        if self.out.violation.is_some() || self.out.stopped_by_panic.is_some() {
            return;
        }
        let before = self.out.executed;
        self.step_inner(ix, op);
        if self.out.executed == before {
            self.out.skipped += 1;
            self.out.skipped_ix.push(ix);
        } else if self.prop == "C01" || self.prop == "C19" {
            // every executed op is one evaluation of "returned normally" / "no index assertion fired"
            self.out.evals += 1;
        }
    }

    fn step_inner(&mut self, ix: usize, op: &Op) {
        match op {
            Op::Create { s, t, lang } => {
                if self.stores.contains_key(s) || *t >= self.threads.len() {
                    return;
                }
                self.out.executed += 1;
                let l = lang.clone();
                match self.threads[*t].run(move || sut::new_store(&l)) {
                    Ok(store) => {
                        self.stores.insert(
                            *s,
                            Slot {
                                store: Some(store),
                                model: Model::new(lang),
                                thread: *t,
                                searched_before: false,
                                changed_after_search: false,
                                primed: false,
                                ever_cleared: false,
                                adds_since_clear: 0,
                                adds_since_empty_search: 0,
                                last_search: None,
                                arrival: Vec::new(),
                            },
                        );
                        self.record(ix, op, "ok");
                    }
                    Err(p) => {
                        self.record(ix, op, &p.render());
                        self.on_panic(ix, &p);
                    }
                }
            }
            Op::Add { s, id, title, rating } => {
                if !self.stores.contains_key(s) {
                    return;
                }
                self.out.executed += 1;
                let (i, t, r) = (*id, title.clone(), *rating);
                let res = self.run_store(*s, move |st| sut::add(st, i, &t, r));
                let slot = self.stores.get_mut(s).unwrap();
                if slot.ever_cleared {
                    self.out.faults[F_CLEAR_READD] += 1;
                }
                if slot.primed {
                    self.out.faults[F_CACHE_PRIME] += 1;
                }
                slot.model.recs.push((*id, title.clone(), *rating));
                slot.arrival.push(*id);
                slot.adds_since_clear += 1;
                slot.adds_since_empty_search += 1;
                slot.primed = false;
                if slot.searched_before {
                    slot.changed_after_search = true;
                }
                slot.last_search = None;
                self.finish_unit(ix, op, res);
            }
            Op::Clear { s } => {
                if !self.stores.contains_key(s) {
                    return;
                }
                self.out.executed += 1;
                let res = self.run_store(*s, |st| st.clear());
                let slot = self.stores.get_mut(s).unwrap();
                if slot.primed {
                    self.out.faults[F_CACHE_PRIME] += 1;
                }
                slot.model.recs.clear();
                slot.ever_cleared = true;
                slot.adds_since_clear = 0;
                slot.primed = false;
                if slot.searched_before {
                    slot.changed_after_search = true;
                }
                slot.last_search = None;
                self.finish_unit(ix, op, res);
            }
            Op::SetLimit { s, limit } => {
                if !self.stores.contains_key(s) {
                    return;
                }
                self.out.executed += 1;
                let l = *limit;
                let res = self.run_store(*s, move |st| st.limit = l);
                let slot = self.stores.get_mut(s).unwrap();
                if slot.primed {
                    self.out.faults[F_CACHE_PRIME] += 1;
                }
                if slot.searched_before {
                    self.out.faults[F_LIMIT_SWING] += 1;
                    slot.changed_after_search = true;
                }
                slot.model.limit = *limit;
                slot.primed = false;
                slot.last_search = None;
                self.saw_setting_change = true;
                self.finish_unit(ix, op, res);
            }
            Op::SetMarkers { s, l, r } => {
                if !self.stores.contains_key(s) {
                    return;
                }
                self.out.executed += 1;
                let (a, b) = (l.clone(), r.clone());
                let res = self.run_store(*s, move |st| st.highlight_with((&a, &b)));
                let slot = self.stores.get_mut(s).unwrap();
                slot.model.markers = (l.clone(), r.clone());
                if slot.searched_before {
                    slot.changed_after_search = true;
                }
                slot.last_search = None;
                self.saw_setting_change = true;
                self.finish_unit(ix, op, res);
            }
            Op::Search { s, q, deep } => {
                if !self.stores.contains_key(s) {
                    return;
                }
                self.out.executed += 1;
                self.do_search(ix, op, *s, q, *deep);
            }
            Op::PSearch { s, s2, q, q2, at } => {
                if !self.stores.contains_key(s) || !self.stores.contains_key(s2) {
                    return;
                }
                self.out.executed += 1;
                self.do_psearch(ix, op, *s, *s2, q, q2, *at);
            }
            Op::Prepare { s, q, size } => {
                if !self.stores.contains_key(s) {
                    return;
                }
                self.out.executed += 1;
                self.do_prepare(ix, op, *s, q, *size);
            }
            Op::SearchBurst { s, q, n } => {
                if !self.stores.contains_key(s) {
                    return;
                }
                self.out.executed += 1;
                let (qq, n) = (q.clone(), *n);
                // all answers of the burst must be the same list (repeating a search gives the same answer)
                let res = self.run_store(*s, move |st| {
                    let first = sut::search(st, &qq);
                    let mut odd: Option<(usize, Hits)> = None;
                    for k in 1..n {
                        let h = sut::search(st, &qq);
                        if odd.is_none() && h != first {
                            odd = Some((k, h));
                        }
                    }
                    (first, odd)
                });
                self.out.faults[F_REPEAT] += 1;
                match res {
                    Ok((first, odd)) => {
                        self.record(ix, op, &fmt_hits(&first));
                        self.out.searches += n as u64;
                        if let Some((k, h)) = odd {
                            if self.on("C10") {
                                self.out.evals += 1;
                            }
                            self.violate("C10", "C10.repeat", ix, "", format!("repetition {} of the same search: {}", k, fmt_hits(&h)), fmt_hits(&first), String::new());
                        }
                        let slot = self.stores.get_mut(s).unwrap();
                        slot.searched_before = true;
                    }
                    Err(p) => {
                        self.record(ix, op, &p.render());
                        self.on_panic(ix, &p);
                    }
                }
            }
            Op::Migrate { s, t } => {
                if !self.stores.contains_key(s) || *t >= self.threads.len() {
                    return;
                }
                let slot = self.stores.get_mut(s).unwrap();
                if slot.thread == *t {
                    return;
                }
                self.out.executed += 1;
                slot.thread = *t;
                self.out.faults[F_MIGRATE] += 1;
                self.record(ix, op, "ok");
            }
            Op::FreshThread { t } => {
                if *t >= self.threads.len() || self.registry.keys().any(|(rt, _)| rt == t) {
                    return;
                }
                self.out.executed += 1;
                // harvest probes of the thread that is about to go away
                #[cfg(feature = "hooks")]
                {
                    if let Ok(c) = self.threads[*t].run(|| lib::verif::take_probes()) {
                        for i in 0..8 {
                            self.out.probes[i] = self.out.probes[i].wrapping_add(c[i]);
                        }
                    }
                }
                let g = self.next_generation;
                self.next_generation += 1;
                self.threads[*t] = SimThread::spawn(g);
                self.polluted[*t] = false;
                self.scratch_prev_len[*t] = 0;
                self.scratch_grew[*t] = false;
                self.out.faults[F_RESET] += 1;
                self.record(ix, op, "ok");
            }
            Op::Pollute { t, lang, titles, queries } => {
                if *t >= self.threads.len() {
                    return;
                }
                self.out.executed += 1;
                let (l, ts, qs) = (lang.clone(), titles.clone(), queries.clone());
                let res = self.threads[*t].run(move || {
                    let mut st = sut::new_store(&l);
                    for (i, title) in ts.iter().enumerate() {
                        sut::add(&mut st, i, title, i);
                    }
                    let mut n = 0usize;
                    for q in qs.iter() {
                        n += sut::search(&st, q).len();
                    }
                    n
                });
                self.polluted[*t] = true;
                self.out.faults[F_POLLUTE] += 1;
                match res {
                    Ok(n) => self.record(ix, op, &format!("hits={}", n)),
                    Err(p) => {
                        self.record(ix, op, &p.render());
                        self.on_panic(ix, &p);
                    }
                }
            }
            Op::Converge { stores, q } => {
                if stores.is_empty() || stores.iter().any(|s| !self.stores.contains_key(s)) {
                    return;
                }
                self.out.executed += 1;
                self.do_converge(ix, op, stores, q);
            }
            Op::PairCheck { s, q, sel, pairs } => {
                if !self.stores.contains_key(s) {
                    return;
                }
                self.out.executed += 1;
                self.do_pair_check(ix, op, *s, q, *sel, *pairs);
            }
            Op::RCreate { .. } | Op::RDestroy { .. } | Op::RAdd { .. } | Op::RLimit { .. } | Op::RMarkers { .. } | Op::RSearch { .. } | Op::RRead { .. } => {
                self.do_registry(ix, op);
            }
            Op::Dist { .. } | Op::Jacc { .. } | Op::WMatch { .. } | Op::Burst { .. } | Op::JCheck { .. } | Op::JBurst { .. } | Op::Preempt { .. } => {
                #[cfg(feature = "hooks")]
                crate::scratch::step(self, ix, op);
            }
        }
    }

    fn finish_unit(&mut self, ix: usize, op: &Op, res: Result<(), PanicInfo>) {
        match res {
            Ok(()) => self.record(ix, op, "ok"),
            Err(p) => {
                self.record(ix, op, &p.render());
                self.on_panic(ix, &p);
            }
        }
    }

    // ------------------------------------------------------------------------------------------
    // Search and its oracles (C10, C12, C06, C01)
    fn do_search(&mut self, ix: usize, op: &Op, s: usize, q: &str, deep: bool) {
        let qq = q.to_string();
        let res = self.run_store(s, move |st| sut::search(st, &qq));
        self.after_search(ix, op, s, q, deep, res);
    }

    /// Two searches of two stores on two caller threads, the first one parked mid-way while the
    /// second runs (hooks build); both are then judged exactly like ordinary searches.
    fn do_psearch(&mut self, ix: usize, op: &Op, s: usize, s2: usize, q: &str, q2: &str, at: usize) {
        let (t1, t2) = (self.stores[&s].thread, self.stores[&s2].thread);
        let blocked = crate::kernel::PREEMPT_BLOCKED.load(std::sync::atomic::Ordering::SeqCst);
        if s == s2 || t1 == t2 || blocked || !cfg!(feature = "hooks") {
            let _ = at;
            self.do_search(ix, op, s, q, false);
            if self.out.violation.is_none() && self.out.stopped_by_panic.is_none() {
                self.do_search(ix, op, s2, q2, false);
            }
            return;
        }
        #[cfg(feature = "hooks")]
        {
            let st1 = self.stores.get_mut(&s).unwrap().store.take().expect("store present");
            let st2 = self.stores.get_mut(&s2).unwrap().store.take().expect("store present");
            let (qa, qb) = (q.to_string(), q2.to_string());
            let first = move || {
                let mut seen = 0usize;
                lib::verif::set_sched_hook(Some(Box::new(move |site| {
                    seen += 1;
                    if seen == at {
                        crate::kernel::park_here(site);
                    }
                })));
                struct Unhook;
                impl Drop for Unhook {
                    fn drop(&mut self) {
                        lib::verif::set_sched_hook(None);
                    }
                }
                let _unhook = Unhook;
                let r = sut::search(&st1, &qa);
                (st1, r)
            };
            let second = move || {
                let r = sut::search(&st2, &qb);
                (st2, r)
            };
            let (r1, r2, site) = self.threads[t1].run_preempted(first, &self.threads[t2], second, std::time::Duration::from_secs(5));
            let res1 = r1.map(|(st, r)| {
                self.stores.get_mut(&s).unwrap().store = Some(st);
                r
            });
            let res2 = r2.map(|(st, r)| {
                self.stores.get_mut(&s2).unwrap().store = Some(st);
                r
            });
            if site.is_some() {
                self.out.faults[F_PREEMPT] += 1;
                self.out.nontrivial = true;
            }
            self.after_search(ix, op, s, q, false, res1);
            if self.out.violation.is_none() && self.out.stopped_by_panic.is_none() {
                self.after_search(ix, op, s2, q2, false, res2);
            } else if let Err(p) = &res2 {
                let _ = p;
            }
        }
    }

    fn after_search(&mut self, ix: usize, op: &Op, s: usize, q: &str, deep: bool, res: Result<Hits, PanicInfo>) {
        self.out.searches += 1;
        self.abstract_state(s);

        let model = self.stores[&s].model.clone();
        // harness-side use of the public tokeniser is guarded too: if it panics (then the search
        // under test has panicked on the same input as well) the oracles that need it are skipped
        let nwords = {
            let lang = self.lang(&model.lang);
            crate::kernel::guarded(|| sut::query_words(q, lang)).unwrap_or(usize::MAX)
        };
        {
            let slot = self.stores.get_mut(&s).unwrap();
            if slot.last_search.as_deref() == Some(q) {
                self.out.faults[F_REPEAT] += 1;
            }
        }

        let hits = match &res {
            Ok(h) => {
                self.record(ix, op, &fmt_hits(h));
                if !h.is_empty() {
                    self.out.searches_with_hits += 1;
                }
                Some(h.clone())
            }
            Err(p) => {
                self.record(ix, op, &p.render());
                None
            }
        };

        // ---- C10: the store under test vs. a newly constructed one on a pristine thread
        if self.on("C10") {
            self.out.evals += 1;
            let (m, qq) = (model.clone(), q.to_string());
            let reference = self.pristine(move || sut::search(&m.build(), &qq));
            let same = match (&res, &reference) {
                (Ok(a), Ok(b)) => a == b,
                (Err(a), Err(b)) => a == b,
                _ => false,
            };
            if !same {
                // classification only: does a fresh store on the (polluted) caller thread agree?
                let t = self.stores[&s].thread;
                let (m, qq) = (model.clone(), q.to_string());
                let on_caller = self.threads[t].run(move || sut::search(&m.build(), &qq));
                let note = match (&on_caller, &reference) {
                    (Ok(a), Ok(b)) if a == b => "store-level staleness: a fresh store on the same caller thread answers like the pristine reference",
                    _ => "scratch-level staleness: even a fresh store on this caller thread differs from the pristine reference",
                };
                let obs = match &res { Ok(h) => fmt_hits(h), Err(p) => p.render() };
                let exp = match &reference { Ok(h) => fmt_hits(h), Err(p) => p.render() };
                let detail = match &res { Ok(_) => String::new(), Err(p) => format!("panic@{}", p.loc) };
                self.violate("C10", "C10.rebuild", ix, &detail, obs, exp, note.to_string());
            }
            let slot = &self.stores[&s];
            if slot.changed_after_search && hits.as_ref().map(|h| !h.is_empty()).unwrap_or(false) {
                self.out.nontrivial = true;
            }
        }

        if let Err(p) = &res {
            self.on_panic(ix, p);
            return;
        }
        let hits = hits.unwrap();

        if self.on("C01") && !hits.is_empty() && self.saw_setting_change {
            // refined by the orchestrator with the split probes when the hooks build is used
            self.out.nontrivial = true;
        }

        // ---- C12: separator-only query lists the top rated records (spec oracle, model only)
        // "a query without any letter or digit": decided from the characters, not by asking the
        // tokeniser under test (the two agree on all 163 million strings tried on the repaired tree)
        let no_alnum = !q.chars().any(|c| c.is_alphanumeric());
        if self.on("C12") && no_alnum {
            self.out.evals += 1;
            self.check_c12(ix, Some(s), &model, &hits);
        }

        // ---- C06: per-record verdict, cut to the best `limit`
        if self.on("C06") && deep {
            self.out.evals += 1;
            self.check_c06(ix, &model, q, &hits);
        }

        let slot = self.stores.get_mut(&s).unwrap();
        slot.searched_before = true;
        slot.changed_after_search = false;
        slot.last_search = Some(q.to_string());
        if nwords == 0 {
            slot.primed = true;
            slot.adds_since_empty_search = 0;
        }
    }

    fn check_c12(&mut self, ix: usize, s: Option<usize>, model: &Model, hits: &Hits) {
        let n = model.recs.len();
        let limit = model.limit;
        let want = n.min(limit);
        let obs = fmt_hits(hits);
        if hits.len() != want {
            self.violate("C12", "C12.length", ix, "", obs, format!("{} hits = min(limit {}, records {})", want, limit, n), String::new());
            return;
        }
        let chars: Vec<Vec<char>> = {
            let lang = self.lang(&model.lang);
            match crate::kernel::guarded(|| model.recs.iter().map(|(_, t, _)| sut::record_chars(t, lang)).collect()) {
                Ok(c) => c,
                Err(_) => return,
            }
        };
        // what "no highlighting" leaves: the stored title as the tokeniser keeps it (accent
        // sequences composed), without its internal padding
        let plain: Vec<String> = {
            let lang = self.lang(&model.lang);
            match crate::kernel::guarded(|| model.recs.iter().map(|(_, t, _)| sut::record_plain(t, lang)).collect()) {
                Ok(c) => c,
                Err(_) => return,
            }
        };
        let mut by_id: HashMap<usize, usize> = HashMap::new();
        let mut ids_unique = true;
        for (i, (id, _, _)) in model.recs.iter().enumerate() {
            if by_id.insert(*id, i).is_some() {
                ids_unique = false;
            }
        }
        if !ids_unique {
            return; // the generator never does this; an id oracle would be ambiguous
        }
        let (ml, mr) = (&model.markers.0, &model.markers.1);
        let sentinel = |m: &String| !m.is_empty() && !model.recs.iter().any(|(_, t, _)| t.contains(m.as_str()));
        let mut listed: Vec<usize> = Vec::new();
        for (id, title) in hits {
            match by_id.get(id) {
                None => {
                    self.violate("C12", "C12.membership", ix, "", obs.clone(), format!("id {} is not a record currently in the store", id), String::new());
                    return;
                }
                Some(&i) => listed.push(i),
            }
            if (sentinel(ml) && title.contains(ml.as_str())) || (sentinel(mr) && title.contains(mr.as_str())) {
                self.violate("C12", "C12.no_highlight", ix, "", obs.clone(), "no highlighting on a query without letters or digits".into(), String::new());
                return;
            }
            if let Some(&i) = by_id.get(id) {
                if ml.is_empty() && mr.is_empty() || (sentinel(ml) && sentinel(mr)) {
                    if title != &plain[i] {
                        self.violate("C12", "C12.plain_title", ix, "", format!("{:?}", title), format!("{:?}: the stored title, undecorated", plain[i]), String::new());
                        return;
                    }
                }
            }
        }
        let mut seen = BTreeSet::new();
        for &i in &listed {
            if !seen.insert(i) {
                self.violate("C12", "C12.membership", ix, "", obs.clone(), "no record listed twice".into(), String::new());
                return;
            }
        }
        for w in listed.windows(2) {
            if model.recs[w[0]].2 < model.recs[w[1]].2 {
                self.violate("C12", "C12.order", ix, "", obs.clone(), "ratings never increase down the list".into(), String::new());
                return;
            }
        }
        // omitted vs. listed
        for (o, rec) in model.recs.iter().enumerate() {
            if seen.contains(&o) {
                continue;
            }
            for &l in &listed {
                let (ro, rl) = (rec.2, model.recs[l].2);
                let bad = ro > rl || (ro == rl && chars[l] > chars[o]);
                if bad {
                    self.violate(
                        "C12",
                        "C12.selection",
                        ix,
                        "",
                        obs.clone(),
                        format!("omitted record id {} (rating {}) must not beat listed record id {} (rating {})", rec.0, ro, model.recs[l].0, rl),
                        String::new(),
                    );
                    return;
                }
            }
        }
        let mut ratings: Vec<usize> = model.recs.iter().map(|r| r.2).collect();
        ratings.sort_unstable();
        let distinct = ratings.windows(2).all(|w| w[0] != w[1]);
        if distinct {
            let mut order: Vec<usize> = (0..n).collect();
            order.sort_by(|&a, &b| model.recs[b].2.cmp(&model.recs[a].2));
            order.truncate(want);
            if order != listed {
                let exp: Vec<usize> = order.iter().map(|&i| model.recs[i].0).collect();
                self.violate("C12", "C12.exact", ix, "", obs.clone(), format!("ids {:?} (the best rated, descending)", exp), String::new());
                return;
            }
        }
        let tie = !distinct;
        let added_since = match s {
            Some(s) => {
                let slot = &self.stores[&s];
                slot.searched_before && slot.adds_since_empty_search > 0
            }
            None => true,
        };
        if n > limit && limit >= 1 && (tie || added_since) {
            self.out.nontrivial = true;
        }
    }

    fn check_c06(&mut self, ix: usize, model: &Model, q: &str, hits: &Hits) {
        let obs = fmt_hits(hits);
        let n = model.recs.len();
        if hits.len() > model.limit {
            self.violate("C06", "C06.limit", ix, "", obs, format!("at most {} hits", model.limit), String::new());
            return;
        }
        // record ids are the caller's and need not be unique: two records with one id are two records
        let model_ids: BTreeSet<usize> = model.recs.iter().map(|r| r.0).collect();
        let ids_unique = model_ids.len() == n;
        if ids_unique {
            let mut ids = BTreeSet::new();
            for (id, _) in hits {
                if !ids.insert(*id) {
                    self.violate("C06", "C06.duplicate", ix, "", obs, "no record returned twice".into(), String::new());
                    return;
                }
            }
        }
        if !ids_unique && n > 300 {
            return; // with colliding ids every hit has many candidate records: too costly on large stores
        }
        let complete = n <= model.limit.saturating_mul(10) && n > 0;
        let (m, qq, hh) = (model.clone(), q.to_string(), hits.clone());
        // everything below runs on ONE pristine thread; the language object is handed from
        // single-record store to single-record store (building a stemmer is the expensive part)
        let reference = self.pristine(move || {
            let mut lang = sut::make_lang(&m.lang);
            let mut single = |rec: &(usize, String, usize), limit: usize| -> Hits {
                let mut st = Store::new();
                st.lang = std::mem::replace(&mut lang, Lang::new());
                st.limit = limit;
                st.highlight_with((&m.markers.0, &m.markers.1));
                sut::add(&mut st, rec.0, &rec.1, rec.2);
                let r = sut::search(&st, &qq);
                lang = std::mem::replace(&mut st.lang, Lang::new());
                r
            };
            // soundness: every hit is what one of the records carrying its id yields alone
            let mut alone_for_hits: Vec<Vec<Hits>> = Vec::new();
            for (id, _) in hh.iter() {
                let mut alts = Vec::new();
                for rec in m.recs.iter().filter(|r| r.0 == *id) {
                    alts.push(single(rec, m.limit));
                }
                alone_for_hits.push(alts);
            }
            // completeness: unlimited list, and what every record yields alone
            let mut unlimited: Option<Hits> = None;
            let mut alone_all: Vec<(usize, String)> = Vec::new();
            if complete {
                let mut big = m.clone();
                big.limit = m.recs.len();
                unlimited = Some(sut::search(&big.build(), &qq));
                for rec in m.recs.iter() {
                    alone_all.extend(single(rec, m.recs.len()));
                }
            }
            (alone_for_hits, unlimited, alone_all)
        });
        let (alone_for_hits, unlimited, alone_all) = match reference {
            Ok(x) => x,
            Err(p) => {
                // a search that panics on a one-record or unlimited store is C01's finding (its workload
                // is full of tiny stores), not a statement about how records influence each other:
                // the run ends here and is counted as aborted by a panic
                self.out.stopped_by_panic = Some(p);
                return;
            }
        };
        for (hit, alts) in hits.iter().zip(alone_for_hits.iter()) {
            if !alts.iter().any(|alone| alone.len() == 1 && &alone[0] == hit) {
                let shown: Vec<String> = alts.iter().map(fmt_hits).collect();
                self.violate("C06", "C06.soundness", ix, "", format!("{:?}", hit), format!("what the record(s) with that id yield alone: {}", shown.join(" / ")), String::new());
                return;
            }
        }
        if let Some(u) = unlimited {
            let mut ratings: Vec<usize> = model.recs.iter().map(|r| r.2).collect();
            ratings.sort_unstable();
            let distinct = ratings.windows(2).all(|w| w[0] != w[1]);
            let want = model.limit.min(u.len());
            if distinct {
                if hits[..] != u[..want] {
                    self.violate("C06", "C06.prefix", ix, "", obs, format!("first {} of the unlimited list {}", want, fmt_hits(&u)), String::new());
                    return;
                }
            } else if hits.len() != want || hits.iter().any(|h| !u.contains(h)) {
                self.violate("C06", "C06.prefix_ties", ix, "", obs, format!("{} entries out of the unlimited list {}", want, fmt_hits(&u)), String::new());
                return;
            }
            // the unlimited list holds exactly the records that are hits on their own (as multisets:
            // with duplicate ids or titles two records can yield the same (id, title))
            let mut a = u.clone();
            let mut b = alone_all.clone();
            a.sort();
            b.sort();
            if a != b {
                self.violate("C06", "C06.completeness", ix, "", format!("unlimited list (sorted) {}", fmt_hits(&a)), format!("what the records yield alone (sorted) {}", fmt_hits(&b)), String::new());
                return;
            }
        }
        if hits.len() >= 2 && n > model.limit {
            self.out.nontrivial = true;
        }
    }

    // ------------------------------------------------------------------------------------------
    // C18
    fn do_prepare(&mut self, ix: usize, op: &Op, s: usize, q: &str, size: usize) {
        let qq = q.to_string();
        let res = self.run_store(s, move |st| sut::prepare(st, &qq, size));
        let cands = match res {
            Ok(c) => {
                self.record(ix, op, &format!("{:?}", c));
                c
            }
            Err(p) => {
                self.record(ix, op, &p.render());
                if self.on("C18") && !self.stores[&s].ever_cleared && !p.is_hook_assert() {
                    // no candidate list at all: is that the input's fault or this index's history?
                    let (m, qq) = (self.stores[&s].model.clone(), q.to_string());
                    self.out.evals += 1;
                    if let Ok(c) = self.pristine(move || sut::prepare(&m.build(), &qq, size)) {
                        self.violate("C18", "C18.prepare_panic", ix, &p.loc.clone(), p.render(), format!("an index built from the same adds on a fresh thread returns {:?}", c), String::new());
                    }
                }
                self.on_panic(ix, &p);
                return;
            }
        };
        if !self.on("C18") || self.stores[&s].ever_cleared {
            return;
        }
        let model = self.stores[&s].model.clone();
        let (qgrams, rgrams) = {
            let lang = self.lang(&model.lang);
            let toks = crate::kernel::guarded(|| {
                let qw = sut::query_word_chars(q, lang);
                let rw: Vec<_> = model.recs.iter().map(|(_, t, _)| sut::record_word_chars(t, lang)).collect();
                (qw, rw)
            });
            let (qw, rw) = match toks {
                Ok(x) => x,
                Err(_) => return,
            };
            if qw.is_empty() {
                return; // the property speaks of queries with at least one word
            }
            let qg = sut::gram_set(&qw);
            let rg: Vec<_> = rw.iter().map(|w| sut::gram_set(w)).collect();
            (qg, rg)
        };
        self.out.evals += 1;
        let n = model.recs.len();
        let shared: Vec<usize> = rgrams.iter().map(|g| g.intersection(&qgrams).count()).collect();
        let positives = shared.iter().filter(|&&c| c > 0).count();
        let obs = format!("{:?}", cands);
        let mut seen = BTreeSet::new();
        for &c in &cands {
            if c >= n {
                self.violate("C18", "C18.range", ix, "", obs, format!("positions below {}", n), String::new());
                return;
            }
            if !seen.insert(c) {
                self.violate("C18", "C18.duplicate", ix, "", obs, "no duplicates".into(), String::new());
                return;
            }
            if shared[c] == 0 {
                self.violate("C18", "C18.unrelated", ix, "", obs, format!("position {} shares no gram with the query", c), String::new());
                return;
            }
        }
        let cap = size.saturating_mul(10);
        if positives <= cap {
            if cands.len() != positives {
                let exp: Vec<usize> = (0..n).filter(|&i| shared[i] > 0).collect();
                self.violate("C18", "C18.complete", ix, "", obs, format!("all {} sharing records {:?} (any order)", positives, exp), String::new());
                return;
            }
        } else {
            if cands.len() != cap {
                self.violate("C18", "C18.cap", ix, "", obs, format!("exactly {} candidates", cap), String::new());
                return;
            }
            for w in cands.windows(2) {
                if shared[w[0]] < shared[w[1]] {
                    self.violate("C18", "C18.order", ix, "", obs, "non-increasing shared-gram counts".into(), String::new());
                    return;
                }
            }
            let min_listed = cands.iter().map(|&c| shared[c]).min().unwrap_or(usize::MAX);
            let max_omitted = (0..n).filter(|i| !seen.contains(i)).map(|i| shared[i]).max().unwrap_or(0);
            if max_omitted > min_listed {
                self.violate("C18", "C18.best", ix, "", obs, format!("no omitted record shares more grams ({}) than a listed one ({})", max_omitted, min_listed), String::new());
                return;
            }
        }
        if positives >= 2 && n >= 2 {
            self.out.nontrivial = true;
        }
    }

    // ------------------------------------------------------------------------------------------
    // C07
    fn do_converge(&mut self, ix: usize, op: &Op, stores: &[usize], q: &str) {
        let mut results: Vec<Hits> = Vec::new();
        for &s in stores {
            let qq = q.to_string();
            match self.run_store(s, move |st| sut::search(st, &qq)) {
                Ok(h) => results.push(h),
                Err(p) => {
                    self.record(ix, op, &p.render());
                    self.on_panic(ix, &p);
                    return;
                }
            }
            self.out.searches += 1;
        }
        self.record(ix, op, &results.iter().map(fmt_hits).collect::<Vec<_>>().join(" | "));
        if !results[0].is_empty() {
            self.out.searches_with_hits += 1;
        }
        if !self.on("C07") {
            return;
        }
        // preconditions of the statement: same record set, pairwise distinct ratings, n <= 10*limit
        let m0 = self.stores[&stores[0]].model.clone();
        let canon = |m: &Model| {
            let mut r = m.recs.clone();
            r.sort();
            (m.lang.clone(), r, m.limit, m.markers.clone())
        };
        if stores.iter().any(|s| canon(&self.stores[s].model) != canon(&m0)) {
            return;
        }
        let mut ratings: Vec<usize> = m0.recs.iter().map(|r| r.2).collect();
        ratings.sort_unstable();
        if !ratings.windows(2).all(|w| w[0] != w[1]) || m0.recs.len() > m0.limit.saturating_mul(10) {
            return;
        }
        self.out.evals += 1;
        for (k, r) in results.iter().enumerate().skip(1) {
            if r != &results[0] {
                self.violate(
                    "C07",
                    "C07.converge",
                    ix,
                    "",
                    format!("store {} (arrival order {:?}): {}", stores[k], self.stores[&stores[k]].arrival, fmt_hits(r)),
                    format!("store {} (arrival order {:?}): {}", stores[0], self.stores[&stores[0]].arrival, fmt_hits(&results[0])),
                    String::new(),
                );
                return;
            }
        }
        {
            let n = m0.recs.len();
            let rel: u64 = if n <= m0.limit { 0 } else if n <= 2 * m0.limit { 1 } else { 2 };
            let threads_used: std::collections::BTreeSet<usize> = stores.iter().map(|s| self.stores[s].thread).collect();
            let primed = stores.iter().filter(|s| self.stores[*s].searched_before).count() as u64;
            let pol = stores.iter().any(|s| self.polluted[self.stores[s].thread]) as u64;
            self.note_state(&[8, (n.min(60) / 6) as u64, rel, stores.len() as u64, threads_used.len() as u64, primed.min(2), pol, results[0].len().min(3) as u64]);
        }
        // measure: did two replicas really receive a returned pair in opposite orders?
        if results[0].len() >= 2 {
            let a = results[0][0].0;
            let b = results[0][1].0;
            let mut orders = BTreeSet::new();
            for s in stores {
                let arr = &self.stores[s].arrival;
                let pa = arr.iter().position(|x| *x == a);
                let pb = arr.iter().position(|x| *x == b);
                orders.insert(pa < pb);
            }
            if orders.len() == 2 {
                self.out.nontrivial = true;
                self.out.faults[F_REORDER] += 1;
            }
        }
    }

    fn do_pair_check(&mut self, ix: usize, op: &Op, s: usize, q: &str, sel: u64, pairs: usize) {
        let qq = q.to_string();
        let hits = match self.run_store(s, move |st| sut::search(st, &qq)) {
            Ok(h) => h,
            Err(p) => {
                self.record(ix, op, &p.render());
                self.on_panic(ix, &p);
                return;
            }
        };
        self.out.searches += 1;
        self.record(ix, op, &fmt_hits(&hits));
        if !self.on("C07") || hits.len() < 2 {
            return;
        }
        let model = self.stores[&s].model.clone();
        let mut ratings: Vec<usize> = model.recs.iter().map(|r| r.2).collect();
        ratings.sort_unstable();
        if !ratings.windows(2).all(|w| w[0] != w[1]) || model.recs.len() > model.limit.saturating_mul(10) {
            return;
        }
        let mut x = sel;
        for k in 0..pairs {
            x = mix(x, k as u64 + 1);
            let i = (x % hits.len() as u64) as usize;
            let mut j = ((x >> 20) % (hits.len() as u64 - 1)) as usize;
            if j >= i {
                j += 1;
            }
            let (i, j) = (i.min(j), i.max(j)); // hit i is ranked before hit j
            let rec_of = |id: usize| model.recs.iter().find(|r| r.0 == id).cloned();
            let (ra, rb) = match (rec_of(hits[i].0), rec_of(hits[j].0)) {
                (Some(a), Some(b)) => (a, b),
                _ => continue,
            };
            // the two-record replicas live on the simulated caller threads (polluted scratch), chosen by `sel`
            let t = ((x >> 40) as usize) % self.threads.len();
            for flip in 0..2 {
                let mut m = Model::new(&model.lang);
                m.limit = model.limit;
                m.markers = model.markers.clone();
                m.recs = if flip == 0 { vec![ra.clone(), rb.clone()] } else { vec![rb.clone(), ra.clone()] };
                let qq = q.to_string();
                let got = self.threads[t].run(move || sut::search(&m.build(), &qq));
                self.out.evals += 1;
                self.out.faults[F_DROP_TO_PAIR] += 1;
                let want: Hits = vec![hits[i].clone(), hits[j].clone()].into_iter().take(model.limit.min(2)).collect();
                match got {
                    Ok(g) => {
                        if g != want {
                            self.violate(
                                "C07",
                                "C07.pair",
                                ix,
                                "",
                                format!("two-record store (added {}) answers {}", if flip == 0 { "in rank order" } else { "in reverse rank order" }, fmt_hits(&g)),
                                format!("{} as in the full store's list {}", fmt_hits(&want), fmt_hits(&hits)),
                                String::new(),
                            );
                            return;
                        }
                    }
                    Err(p) => {
                        // as above: a panicking search is reported by C01
                        self.on_panic(ix, &p);
                        return;
                    }
                }
            }
            self.out.nontrivial = true;
        }
    }

    // ------------------------------------------------------------------------------------------
    // C20: registry clients
    fn do_registry(&mut self, ix: usize, op: &Op) {
        let (t, id) = match op {
            Op::RCreate { t, id, .. } | Op::RDestroy { t, id } | Op::RAdd { t, id, .. } | Op::RLimit { t, id, .. } | Op::RMarkers { t, id, .. } | Op::RSearch { t, id, .. } | Op::RRead { t, id } => (*t, *id),
            _ => unreachable!(),
        };
        if t >= self.threads.len() {
            return;
        }
        let live = self.registry.contains_key(&(t, id));
        // valid calls only: no duplicate create, no use of a missing id
        match op {
            Op::RCreate { .. } if live => return,
            Op::RCreate { .. } => {}
            _ if !live => return,
            _ => {}
        }
        self.out.executed += 1;
        let c20 = self.on("C20");
        let thread = &self.threads[t];
        let result: Result<String, PanicInfo> = match op {
            Op::RCreate { lang, .. } => {
                let l = lang.clone();
                let r = thread.run(move || lib::create_store(id, sut::make_lang(&l)));
                if r.is_ok() {
                    let standalone = if c20 {
                        let l = lang.clone();
                        self.model_thread.run(move || sut::new_store(&l)).ok()
                    } else {
                        None
                    };
                    let destroyed_before = self.reg_dead.contains(&(t, id));
                    if destroyed_before {
                        self.out.faults[F_DESTROY_RECREATE] += 1;
                    }
                    self.registry.insert((t, id), RegSlot { model: Model::new(lang), standalone, last_hits: Vec::new(), destroyed_before });
                }
                r.map(|_| "ok".to_string())
            }
            Op::RDestroy { .. } => {
                let r = thread.run(move || lib::destroy_store(id));
                self.registry.remove(&(t, id));
                self.reg_dead.insert((t, id));
                r.map(|_| "ok".to_string())
            }
            Op::RAdd { rec, title, rating, .. } => {
                let (rc, ti, ra) = (*rec, title.clone(), *rating);
                let r = thread.run(move || lib::add_record(id, rc, &ti, ra));
                let slot = self.registry.get_mut(&(t, id)).unwrap();
                slot.model.recs.push((*rec, title.clone(), *rating));
                if let Some(st) = slot.standalone.take() {
                    let (rc, ti, ra) = (*rec, title.clone(), *rating);
                    slot.standalone = self.model_thread.run(move || { let mut st = st; sut::add(&mut st, rc, &ti, ra); st }).ok();
                }
                r.map(|_| "ok".to_string())
            }
            Op::RLimit { limit, .. } => {
                let l = *limit;
                let r = thread.run(move || lib::set_limit(id, l));
                let slot = self.registry.get_mut(&(t, id)).unwrap();
                slot.model.limit = l;
                if let Some(st) = slot.standalone.take() {
                    slot.standalone = self.model_thread.run(move || { let mut st = st; st.limit = l; st }).ok();
                }
                self.saw_setting_change = true;
                r.map(|_| "ok".to_string())
            }
            Op::RMarkers { l, r, .. } => {
                let (a, b) = (l.clone(), r.clone());
                let res = thread.run(move || lib::highlight_with(id, (&a, &b)));
                let slot = self.registry.get_mut(&(t, id)).unwrap();
                slot.model.markers = (l.clone(), r.clone());
                if let Some(st) = slot.standalone.take() {
                    let (a, b) = (l.clone(), r.clone());
                    slot.standalone = self.model_thread.run(move || { let mut st = st; st.highlight_with((&a, &b)); st }).ok();
                }
                self.saw_setting_change = true;
                res.map(|_| "ok".to_string())
            }
            Op::RSearch { q, .. } => {
                let qq = q.clone();
                let r = thread.run(move || {
                    lib::run_search(id, &qq);
                    lib::using_results(id, |buf| buf.iter().map(|h| (h.id, h.title.clone())).collect::<Hits>())
                });
                self.out.searches += 1;
                match r {
                    Ok(h) => {
                        if !h.is_empty() {
                            self.out.searches_with_hits += 1;
                        }
                        let slot = self.registry.get_mut(&(t, id)).unwrap();
                        slot.last_hits = h.clone();
                        if self.prop == "C12" && !q.chars().any(|c| c.is_alphanumeric()) {
                            // the same specification oracle through the top-level API
                            let m = self.registry[&(t, id)].model.clone();
                            self.out.evals += 1;
                            self.check_c12(ix, None, &m, &h);
                        }
                        let slot = self.registry.get_mut(&(t, id)).unwrap();
                        if c20 {
                            self.out.evals += 1;
                            let mut expected: Option<Result<Hits, PanicInfo>> = None;
                            if let Some(st) = slot.standalone.take() {
                                let qq = q.clone();
                                match self.model_thread.run(move || { let r = sut::search(&st, &qq); (st, r) }) {
                                    Ok((st, e)) => { slot.standalone = Some(st); expected = Some(Ok(e)); }
                                    Err(p) => expected = Some(Err(p)),
                                }
                            }
                            match expected {
                                Some(Ok(e)) if e != h => {
                                    self.violate("C20", "C20.search", ix, "", fmt_hits(&h), format!("stand-alone store with the same history: {}", fmt_hits(&e)), String::new());
                                }
                                Some(Err(p)) => {
                                    self.violate("C20", "C20.search", ix, "", fmt_hits(&h), format!("stand-alone store with the same history: {}", p.render()), String::new());
                                }
                                _ => {}
                            }
                            // ... and exactly what a NEWLY BUILT stand-alone store with the same language,
                            // records, limit and markers returns (the statement does not say "same history")
                            let m = self.registry[&(t, id)].model.clone();
                            let qq = q.clone();
                            self.out.evals += 1;
                            match self.pristine(move || sut::search(&m.build(), &qq)) {
                                Ok(e) if e != h => {
                                    self.violate("C20", "C20.fresh", ix, "", fmt_hits(&h), format!("a newly built stand-alone store with the same records, limit and markers: {}", fmt_hits(&e)), String::new());
                                }
                                _ => {}
                            }
                        }
                        Ok(fmt_hits(&h))
                    }
                    Err(p) => Err(p),
                }
            }
            Op::RRead { .. } => {
                let r = thread.run(move || lib::using_results(id, |buf| buf.iter().map(|h| (h.id, h.title.clone())).collect::<Hits>()));
                r.map(|h| fmt_hits(&h))
            }
            _ => unreachable!(),
        };
        match &result {
            Ok(s) => self.record(ix, op, s),
            Err(p) => {
                self.record(ix, op, &p.render());
                let p = p.clone();
                if p.loc.starts_with("lib.rs:") {
                    // every generated call is valid: a panic in the registry's own bookkeeping means
                    // the id did not behave as an independent store (e.g. cannot be created again)
                    self.violate("C20", "C20.registry_panic", ix, &p.loc.clone(), format!("{} on id {} -> {}", op.kind(), id, p.render()), "valid calls on a live / re-created id return normally".into(), String::new());
                }
                self.on_panic(ix, &p);
                return;
            }
        }
        {
            // abstract state of the registry after this call
            let live_here = self.registry.keys().filter(|(rt, _)| *rt == t).count() as u64;
            let (n, l, nonempty, reborn) = match self.registry.get(&(t, id)) {
                Some(s) => (s.model.recs.len(), s.model.limit, !s.last_hits.is_empty(), s.destroyed_before),
                None => (0, 0, false, true),
            };
            let rel: u64 = if l == 0 { 0 } else if n < l { 1 } else if n == l { 2 } else if n <= 10 * l { 3 } else { 4 };
            let kind = crate::rng::fnv_str(op.kind());
            let pol = self.polluted[t] as u64;
            self.note_state(&[7, kind, live_here.min(3), (n.min(40) / 8) as u64, rel, nonempty as u64, reborn as u64, pol]);
        }
        if !c20 || self.out.violation.is_some() {
            return;
        }
        // after EVERY call: every live id on that thread still holds the hits of ITS last search
        let ids: Vec<usize> = self.registry.keys().filter(|(rt, _)| *rt == t).map(|(_, i)| *i).collect();
        let live_ids = ids.len();
        let mut foreign_nonempty = false;
        for other in ids {
            let got = self.threads[t].run(move || lib::using_results(other, |buf| buf.iter().map(|h| (h.id, h.title.clone())).collect::<Hits>()));
            self.out.evals += 1;
            let slot = &self.registry[&(t, other)];
            match got {
                Ok(h) => {
                    if h != slot.last_hits {
                        let what = if matches!(op, Op::RCreate { .. }) && other == id {
                            if slot.destroyed_before { "a re-created id starts empty" } else { "a created id starts empty" }
                        } else if other == id {
                            "later adds and setting changes on the same id leave its last result alone"
                        } else {
                            "an operation on another id leaves this id's last result alone"
                        };
                        self.violate(
                            "C20",
                            "C20.buffer",
                            ix,
                            "",
                            format!("buffer of id {} after {} on id {}: {}", other, op.kind(), id, fmt_hits(&h)),
                            format!("{} ({})", fmt_hits(&slot.last_hits), what),
                            String::new(),
                        );
                        return;
                    }
                    if other != id && !h.is_empty() {
                        foreign_nonempty = true;
                    }
                }
                Err(p) => {
                    self.violate("C20", "C20.buffer", ix, &p.loc.clone(), p.render(), fmt_hits(&slot.last_hits), String::new());
                    self.on_panic(ix, &p);
                    return;
                }
            }
        }
        if live_ids >= 2 && foreign_nonempty {
            self.out.nontrivial = true;
        }
    }

    pub fn note_state(&mut self, parts: &[u64]) {
        let mut h = Fnv::new();
        for p in parts {
            h.u64(*p);
        }
        self.out.states.insert(h.0);
    }

    // accessors for the scratch module
    pub fn thread(&self, t: usize) -> Option<&SimThread> {
        self.threads.get(t)
    }
    pub fn pristine_ref<R: Send + 'static>(&self, f: impl FnOnce() -> R + Send + 'static) -> Result<R, PanicInfo> {
        self.pristine(f)
    }
    pub fn rec(&mut self, ix: usize, op: &Op, result: &str) {
        self.record(ix, op, result)
    }
    pub fn viol(&mut self, prop: &str, oracle: &str, at_op: usize, key_detail: &str, observed: String, expected: String) {
        self.violate(prop, oracle, at_op, key_detail, observed, expected, String::new())
    }
    pub fn panicked(&mut self, ix: usize, p: &PanicInfo) {
        self.on_panic(ix, p)
    }
    pub fn capacity(&self) -> Option<usize> {
        self.cfg.capacity
    }
}

pub fn execute(prop: &str, cfg: &Config, ops: &[Op], keep_log: bool) -> RunOutcome {
    let mut ex = Exec::new(prop, cfg, keep_log);
    for (ix, op) in ops.iter().enumerate() {
        ex.step(ix, op);
    }
    ex.finish()
}
