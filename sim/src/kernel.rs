//! Simulation kernel: simulated caller threads are real OS threads, parked on a channel and
//! released one job at a time by the simulator (the main thread). At most one thread is ever
//! runnable, and which one runs is decided by the op list (i.e. by the PRNG), never by the OS.
//!
//! Library calls run under `catch_unwind`; the panic hook stores location and message in a
//! thread-local slot of the panicking thread (only while that thread is marked as "running
//! library code"), so that a panic is an ordinary op result. A panic anywhere else is a
//! harness error and keeps the default behaviour (message on stderr, exit code 2 from main).

use std::any::Any;
use std::cell::{Cell, RefCell};
use std::panic::{self, AssertUnwindSafe};
use std::sync::mpsc::{channel, Receiver, Sender};
use std::sync::Once;
use std::thread::{self, JoinHandle};

#[derive(Clone, Debug, PartialEq)]
pub struct PanicInfo {
    /// `file:line` of the panic site, path made relative to the library's `src/`
    pub loc: String,
    pub msg: String,
}

impl PanicInfo {
    pub fn render(&self) -> String {
        format!("PANIC({}: {})", self.loc, self.msg)
    }
    pub fn is_hook_assert(&self) -> bool {
        self.msg.starts_with("lucid_suggest_verif C19")
    }
}

thread_local! {
    static IN_SUT: Cell<bool> = Cell::new(false);
    static LAST_PANIC: RefCell<Option<PanicInfo>> = RefCell::new(None);
}

static HOOK: Once = Once::new();

pub fn install_panic_hook() {
    HOOK.call_once(|| {
        let default = panic::take_hook();
        panic::set_hook(Box::new(move |info| {
            let in_sut = IN_SUT.with(|f| f.get());
            // a panic that cannot unwind (std's unsafe-precondition checks, panic in a destructor
            // during unwinding, ...) aborts the process right after this hook: leave its message
            // on stderr, where the orchestrator reads why the worker died
            let text = if let Some(s) = info.payload().downcast_ref::<&str>() {
                s.to_string()
            } else if let Some(s) = info.payload().downcast_ref::<String>() {
                s.clone()
            } else {
                String::new()
            };
            let cannot_unwind = text.starts_with("unsafe precondition(s) violated") || text.contains("cannot unwind") || text.contains("panic in a destructor during cleanup");
            if !in_sut || cannot_unwind {
                default(info);
                if in_sut {
                    eprintln!("lsim: the panic above cannot unwind; the process aborts inside library code");
                }
                return;
            }
            let loc = info
                .location()
                .map(|l| format!("{}:{}", short_path(l.file()), l.line()))
                .unwrap_or_else(|| "?".to_string());
            let msg = if let Some(s) = info.payload().downcast_ref::<&str>() {
                s.to_string()
            } else if let Some(s) = info.payload().downcast_ref::<String>() {
                s.clone()
            } else {
                "<non-string panic payload>".to_string()
            };
            LAST_PANIC.with(|p| *p.borrow_mut() = Some(PanicInfo { loc, msg }));
        }));
    });
}

fn short_path(p: &str) -> String {
    if let Some(i) = p.find("rust/core/src/") {
        return p[i + "rust/core/src/".len()..].to_string();
    }
    if let Some(i) = p.rfind("/library/") {
        return format!("std:{}", &p[i + "/library/".len()..]);
    }
    if let Some(i) = p.find("/verif/sim/") {
        return format!("HARNESS:{}", &p[i + "/verif/sim/".len()..]);
    }
    p.to_string()
}

/// Runs `f` as library code on the current thread.
pub fn guarded<R>(f: impl FnOnce() -> R) -> Result<R, PanicInfo> {
    IN_SUT.with(|x| x.set(true));
    LAST_PANIC.with(|p| *p.borrow_mut() = None);
    let r = panic::catch_unwind(AssertUnwindSafe(f));
    IN_SUT.with(|x| x.set(false));
    match r {
        Ok(v) => Ok(v),
        Err(_) => {
            let info = LAST_PANIC.with(|p| p.borrow_mut().take()).unwrap_or(PanicInfo { loc: "?".into(), msg: "panic without hook record".into() });
            if info.loc.starts_with("HARNESS:") {
                // a bug in the harness closure, not in the library: never report it as a finding
                eprintln!("HARNESS PANIC inside guarded section at {}: {}", info.loc, info.msg);
                std::process::exit(2);
            }
            Err(info)
        }
    }
}

type AnyBox = Box<dyn Any + Send>;
type Job = Box<dyn FnOnce() -> Result<AnyBox, PanicInfo> + Send>;

/// What a sim-thread reports to the simulator: the job's result, or "parked in the middle of a
/// library call" (at a scheduling point of the hooks build), waiting to be resumed.
enum Ev {
    Parked(&'static str),
    Done(Result<AnyBox, PanicInfo>),
}

thread_local! {
    /// the sim-thread's own line to the simulator, used by `park_here`
    static PARK: RefCell<Option<(Sender<Ev>, Receiver<()>)>> = RefCell::new(None);
}

/// Called on a sim-thread from inside a library call: hand control back to the simulator and
/// block until it releases this thread again. Which thread runs meanwhile is the simulator's choice.
pub fn park_here(site: &'static str) {
    PARK.with(|p| {
        if let Some((tx, resume)) = p.borrow().as_ref() {
            if tx.send(Ev::Parked(site)).is_ok() {
                let _ = resume.recv();
            }
        }
    });
}

/// Set once a released thread did not come back while another one was parked mid-call (it waits
/// for something the parked thread holds): from then on this process no longer parks threads mid-call.
pub static PREEMPT_BLOCKED: std::sync::atomic::AtomicBool = std::sync::atomic::AtomicBool::new(false);

pub struct SimThread {
    tx: Option<Sender<Job>>,
    rx: Receiver<Ev>,
    resume: Sender<()>,
    handle: Option<JoinHandle<()>>,
    pub generation: usize,
}

impl SimThread {
    pub fn spawn(generation: usize) -> SimThread {
        let (tx, jobs) = channel::<Job>();
        let (results, rx) = channel::<Ev>();
        let (resume, resume_rx) = channel::<()>();
        let handle = thread::Builder::new()
            .name("sim-thread".into())
            .stack_size(16 << 20)
            .spawn(move || {
                PARK.with(|p| *p.borrow_mut() = Some((results.clone(), resume_rx)));
                while let Ok(job) = jobs.recv() {
                    let r = job();
                    if results.send(Ev::Done(r)).is_err() {
                        break;
                    }
                }
            })
            .expect("spawn sim thread");
        SimThread { tx: Some(tx), rx, resume, handle: Some(handle), generation }
    }

    fn start<R: Send + 'static>(&self, f: impl FnOnce() -> R + Send + 'static) {
        let job: Job = Box::new(move || guarded(f).map(|r| Box::new(r) as AnyBox));
        self.tx.as_ref().expect("thread alive").send(job).expect("sim thread gone");
    }

    fn finish<R: Send + 'static>(&self) -> Result<R, PanicInfo> {
        loop {
            match self.rx.recv().expect("sim thread died") {
                Ev::Done(r) => return r.map(|b| *b.downcast::<R>().expect("job result type")),
                // nobody asked this job to park: let it go on
                Ev::Parked(_) => self.resume.send(()).expect("sim thread gone"),
            }
        }
    }

    /// Release this thread for exactly one job and wait until it parks again.
    pub fn run<R: Send + 'static>(&self, f: impl FnOnce() -> R + Send + 'static) -> Result<R, PanicInfo> {
        self.start(f);
        self.finish()
    }

    /// Release this thread for one job that parks itself (`park_here`) at most once in the middle
    /// of a library call; while it is parked, `other` is released for one whole job `g`; then this
    /// thread is resumed. Returns both results and the site at which the first job was parked
    /// (None: it finished without reaching the chosen scheduling point, `g` ran afterwards).
    /// If `other` does not come back within `patience` while this thread is parked, it is waiting
    /// for something this thread holds: this thread is resumed first (legal blocking, not a finding).
    pub fn run_preempted<R: Send + 'static, R2: Send + 'static>(
        &self,
        f: impl FnOnce() -> R + Send + 'static,
        other: &SimThread,
        g: impl FnOnce() -> R2 + Send + 'static,
        patience: std::time::Duration,
    ) -> (Result<R, PanicInfo>, Result<R2, PanicInfo>, Option<&'static str>) {
        self.start(f);
        match self.rx.recv().expect("sim thread died") {
            Ev::Done(r) => {
                let r1 = r.map(|b| *b.downcast::<R>().expect("job result type"));
                (r1, other.run(g), None)
            }
            Ev::Parked(site) => {
                other.start(g);
                let first = match other.rx.recv_timeout(patience) {
                    Ok(ev) => Some(ev),
                    Err(_) => {
                        PREEMPT_BLOCKED.store(true, std::sync::atomic::Ordering::SeqCst);
                        None
                    }
                };
                let r2 = match first {
                    Some(Ev::Done(r)) => Some(r.map(|b| *b.downcast::<R2>().expect("job result type"))),
                    Some(Ev::Parked(_)) => {
                        other.resume.send(()).expect("sim thread gone");
                        Some(other.finish::<R2>())
                    }
                    None => None,
                };
                self.resume.send(()).expect("sim thread gone");
                let r1 = self.finish::<R>();
                let r2 = match r2 {
                    Some(r) => r,
                    None => other.finish::<R2>(),
                };
                (r1, r2, Some(site))
            }
        }
    }
}

impl Drop for SimThread {
    fn drop(&mut self) {
        self.tx.take();
        if let Some(h) = self.handle.take() {
            let _ = h.join();
        }
    }
}

/// One job on a brand-new OS thread: every thread-local of the library is in its initial state.
pub fn pristine<R: Send + 'static>(f: impl FnOnce() -> R + Send + 'static) -> Result<R, PanicInfo> {
    let h = thread::Builder::new()
        .name("pristine".into())
        .stack_size(16 << 20)
        .spawn(move || guarded(f))
        .expect("spawn pristine thread");
    h.join().expect("pristine thread join")
}
