//! Simulation kernel: simulated caller threads are real OS threads, parked on a channel and
//! released one job at a time by the simulator (the main thread). At most one thread is ever
//! runnable, and which one runs is decided by the op list (i.e. by the PRNG), never by the OS.
//!
//! Library calls run under `catch_unwind`; the panic hook stores location and message in a
//! thread-local slot of the panicking thread (only while that thread is marked as "running
//! library code"), so that a panic is an ordinary op result. A panic anywhere else is a
//! harness error and keeps the default behaviour (message on stderr, exit code 2 from main).

use std::any::Any;
use std::cell::{Cell, RefCell};
use std::panic::{self, AssertUnwindSafe};
use std::sync::mpsc::{channel, Receiver, Sender};
use std::sync::Once;
use std::thread::{self, JoinHandle};

#[derive(Clone, Debug, PartialEq)]
pub struct PanicInfo {
    /// `file:line` of the panic site, path made relative to the library's `src/`
    pub loc: String,
    pub msg: String,
}

impl PanicInfo {
    pub fn render(&self) -> String {
        format!("PANIC({}: {})", self.loc, self.msg)
    }
    pub fn is_hook_assert(&self) -> bool {
        self.msg.starts_with("lucid_suggest_verif C19")
    }
}

thread_local! {
    static IN_SUT: Cell<bool> = Cell::new(false);
    static LAST_PANIC: RefCell<Option<PanicInfo>> = RefCell::new(None);
}

static HOOK: Once = Once::new();

pub fn install_panic_hook() {
    HOOK.call_once(|| {
        let default = panic::take_hook();
        panic::set_hook(Box::new(move |info| {
            let in_sut = IN_SUT.with(|f| f.get());
            // a panic that cannot unwind (std's unsafe-precondition checks, panic in a destructor
            // during unwinding, ...) aborts the process right after this hook: leave its message
            // on stderr, where the orchestrator reads why the worker died
            let text = if let Some(s) = info.payload().downcast_ref::<&str>() {
                s.to_string()
            } else if let Some(s) = info.payload().downcast_ref::<String>() {
                s.clone()
            } else {
                String::new()
            };
            let cannot_unwind = text.starts_with("unsafe precondition(s) violated") || text.contains("cannot unwind") || text.contains("panic in a destructor during cleanup");
            if !in_sut || cannot_unwind {
                default(info);
                if in_sut {
                    eprintln!("lsim: the panic above cannot unwind; the process aborts inside library code");
                }
                return;
            }
            let loc = info
                .location()
                .map(|l| format!("{}:{}", short_path(l.file()), l.line()))
                .unwrap_or_else(|| "?".to_string());
            let msg = if let Some(s) = info.payload().downcast_ref::<&str>() {
                s.to_string()
            } else if let Some(s) = info.payload().downcast_ref::<String>() {
                s.clone()
            } else {
                "<non-string panic payload>".to_string()
            };
            LAST_PANIC.with(|p| *p.borrow_mut() = Some(PanicInfo { loc, msg }));
        }));
    });
}

fn short_path(p: &str) -> String {
    if let Some(i) = p.find("rust/core/src/") {
        return p[i + "rust/core/src/".len()..].to_string();
    }
    if let Some(i) = p.rfind("/library/") {
        return format!("std:{}", &p[i + "/library/".len()..]);
    }
    if let Some(i) = p.find("/verif/sim/") {
        return format!("HARNESS:{}", &p[i + "/verif/sim/".len()..]);
    }
    p.to_string()
}

/// Runs `f` as library code on the current thread.
pub fn guarded<R>(f: impl FnOnce() -> R) -> Result<R, PanicInfo> {
    IN_SUT.with(|x| x.set(true));
    LAST_PANIC.with(|p| *p.borrow_mut() = None);
    let r = panic::catch_unwind(AssertUnwindSafe(f));
    IN_SUT.with(|x| x.set(false));
    match r {
        Ok(v) => Ok(v),
        Err(_) => {
            let info = LAST_PANIC.with(|p| p.borrow_mut().take()).unwrap_or(PanicInfo { loc: "?".into(), msg: "panic without hook record".into() });
            if info.loc.starts_with("HARNESS:") {
                // a bug in the harness closure, not in the library: never report it as a finding
                eprintln!("HARNESS PANIC inside guarded section at {}: {}", info.loc, info.msg);
                std::process::exit(2);
            }
            Err(info)
        }
    }
}

type AnyBox = Box<dyn Any + Send>;
type Job = Box<dyn FnOnce() -> Result<AnyBox, PanicInfo> + Send>;

pub struct SimThread {
    tx: Option<Sender<Job>>,
    rx: Receiver<Result<AnyBox, PanicInfo>>,
    handle: Option<JoinHandle<()>>,
    pub generation: usize,
}

impl SimThread {
    pub fn spawn(generation: usize) -> SimThread {
        let (tx, jobs) = channel::<Job>();
        let (results, rx) = channel::<Result<AnyBox, PanicInfo>>();
        let handle = thread::Builder::new()
            .name("sim-thread".into())
            .stack_size(16 << 20)
            .spawn(move || {
                while let Ok(job) = jobs.recv() {
                    let r = job();
                    if results.send(r).is_err() {
                        break;
                    }
                }
            })
            .expect("spawn sim thread");
        SimThread { tx: Some(tx), rx, handle: Some(handle), generation }
    }

    /// Release this thread for exactly one job and wait until it parks again.
    pub fn run<R: Send + 'static>(&self, f: impl FnOnce() -> R + Send + 'static) -> Result<R, PanicInfo> {
        let job: Job = Box::new(move || guarded(f).map(|r| Box::new(r) as AnyBox));
        self.tx.as_ref().expect("thread alive").send(job).expect("sim thread gone");
        let r = self.rx.recv().expect("sim thread died");
        r.map(|b| *b.downcast::<R>().expect("job result type"))
    }
}

impl Drop for SimThread {
    fn drop(&mut self) {
        self.tx.take();
        if let Some(h) = self.handle.take() {
            let _ = h.join();
        }
    }
}

/// One job on a brand-new OS thread: every thread-local of the library is in its initial state.
pub fn pristine<R: Send + 'static>(f: impl FnOnce() -> R + Send + 'static) -> Result<R, PanicInfo> {
    let h = thread::Builder::new()
        .name("pristine".into())
        .stack_size(16 << 20)
        .spawn(move || guarded(f))
        .expect("spawn pristine thread");
    h.join().expect("pristine thread join")
}
