//! Corpora for the simulated clients. Workload, not oracle: they exist so that searches return
//! hits and the joined / typo / function-word / accent paths run while state is perturbed.
//! The e-commerce titles are a snapshot (3 285 lines) of /repo/datasets/e_commerce.json so that
//! the workload does not change when files under /repo/datasets are edited.

use std::sync::OnceLock;

use crate::rng::Rng;

static ECOM: &str = include_str!("../corpus/ecommerce.txt");

pub fn ecommerce() -> &'static Vec<&'static str> {
    static V: OnceLock<Vec<&'static str>> = OnceLock::new();
    V.get_or_init(|| ECOM.lines().filter(|l| !l.is_empty()).collect())
}

pub const DE: &[&str] = &[
    "Mitteltöner", "Passstraße", "Große Straße", "Fußball für Mädchen", "Der Bär und die Bücher", "Äpfel aus dem Garten",
    "Über den Wolken", "Grüße aus Köln", "Tür mit Schloß", "Maßband für Schneider", "Ölgemälde der Brücke", "Kühlschrank ohne Gefrierfach",
    "Die Größe der Schuhe", "T-Shirt für Herren", "Wi-Fi Router", "Nähmaschine mit Zubehör", "Müsli-Schale", "Weißbier Gläser",
    "STRAẞE", "Strasse mit Bäumen", "Ein Mädchen aus Österreich", "Hund oder Katze", "Spielzeug für den Hund", "Kopfhörer",
    "Rucksack", "Wanderschuhe wasserdicht", "Kaffeemaschine", "Bücherregal aus Holz", "Lampe und Schirm", "für",
];

pub const FR: &[&str] = &[
    "Café crème", "Élève à l'école", "Œuvre d'art", "Cœur de lion", "Château de la Loire", "Crème brûlée", "Noël en forêt",
    "Le garçon et la mère", "Une île déserte", "Où est la bibliothèque", "Théâtre français", "Pâte à crêpes", "Maïs grillé",
    "L'été à Genève", "Hôtel près de la gare", "Bæuf bourguignon", "Søren ou Ærø", "Fenêtre sur cour", "Déjà vu", "Tête-à-tête",
    "Rôti de bœuf", "Gâteau aux pommes", "À la carte", "Chaise longue", "Lampe de chevet", "Sac à dos", "Vélo de montagne",
    "Ça va", "AÏEUL", "la",
];

pub const ES: &[&str] = &[
    "Niño pequeño", "Corazón de león", "Canción del mañana", "El árbol y el río", "Pingüino azul", "Jamón ibérico", "Café con leche",
    "Señor de los anillos", "Útil y rápido", "La niña y el perro", "Teléfono móvil", "Lápiz o bolígrafo", "Camión de juguete",
    "Música para todos", "España y Portugal", "Vergüenza ajena", "Mochila de montaña", "Zapatos sin cordones", "Reloj de pared",
    "Lámpara de mesa", "ÁRBOL", "Más allá", "un", "Sillón cómodo", "Bicicleta para niños",
];

pub const PT: &[&str] = &[
    "Coração de leão", "Pão de açúcar", "São Paulo à noite", "Avó e avô", "Maçã e pêssego", "Ônibus para Lisboa", "Não há problema",
    "Café da manhã", "O cão e a criança", "Lâmpada de mesa", "Relógio de parede", "Canções portuguesas", "Água com gás",
    "Três irmãos", "Você é português", "Sapatos sem cadarço", "Mochila para viagem", "Òtimo lugar", "Bicicleta ou carro", "AÇÃO",
    "Cadeira de escritório", "Pêra", "uma", "Violão clássico", "Livro de histórias",
];

pub const RU: &[&str] = &[
    "Ёлка и ёжик", "Зелёный чай", "Всё для дома", "Книга о войне и мире", "Стол из дерева", "Чёрный кофе без сахара", "Детские игрушки",
    "Рюкзак для путешествий", "Лампа настольная", "Часы настенные", "Велосипед горный", "Наушники беспроводные", "Подарок для мамы",
    "Кружка с крышкой", "Щётка для обуви", "Мёд и молоко", "Ещё одна книга", "ЁЛКА", "Телефон или планшет", "Куртка зимняя",
    "Одеяло тёплое", "в", "Самолёт", "Шахматы деревянные", "Игра для детей",
];

pub const EN_EXTRA: &[&str] = &[
    "t-shirt", "T-Shirt for men", "wi-fi router", "the saurus", "thesaurus", "university of the universe", "pop corn holder", "popcorn",
    "a", "the", "of", "the the", "An apple a day", "running shoes", "runner's world", "back pack", "backpack", "re-use", "co-op shop",
    "mail box", "mailbox", "yellow metal mailbox", "brown plush bear", "the metal detector", "naïve café", "50's diner", "3 piece set",
];

/// Titles for a store of the given language.
pub fn titles_for(lang: &str) -> Vec<&'static str> {
    match lang {
        "de" => DE.to_vec(),
        "fr" => FR.to_vec(),
        "es" => ES.to_vec(),
        "pt" => PT.to_vec(),
        "ru" => RU.to_vec(),
        _ => Vec::new(),
    }
}

pub const SEPARATORS: &[&str] = &[" ", "  ", "\u{a0}", "-", "–", "—", ".", ",", ";", ":", "!", "?", "&", "(", ")", "'", "\"", "$", "#", "\0", "\t", " - ", ", "];

pub const ALPHABETS: &[&str] = &[
    "abc", "abcde", "aeb1", "xyzaeo", "аеёбв", "aäoößs", "eéèêc", "ab-",
    // code points that agree in their low 7, 8 or 16 bits (tables indexed by a truncated char,
    // keys that pack chars into too few bits): a/á s/ó, a/š b/Ţ, b c with U+D7CE / U+1D7CE
    "asáóx", "abšŢx", "bcx\u{d7ce}\u{1d7ce}", "ab\u{10061}\u{10062}\u{61}",
    // digits and the letters they alias under a 6-bit fold (0/p .. 9/y)
    "pqrstuvwxy0123456789",
    // astral letters next to letters from the top of the BMP (UTF-16 order differs from code-point order)
    "a\u{ff21}\u{ff22}\u{1d7ce}\u{10400}\u{fb01}",
    // more distinct symbols than a machine word has bits
    "abcdefghijklmnopqrstuvwxyz0123456789äöüßéèêçñабвгдеёжзийклмнопрстуфхцчшщъыьэюяαβγδεζηθικλμνξοπρστυφχψωאבגדהוזחטיכלמנסעפצקרשת",
    // characters that are invisible in print but are ordinary characters of a word
    "ab\u{ad}\u{200b}\u{200d}\u{2060}\u{feff}c",
];

/// A synthetic word over a small alphabet: forces shared grams, duplicate titles, cap overflow.
pub fn synth_word(rng: &mut Rng, alphabet: &str, min: usize, max: usize) -> String {
    let cs: Vec<char> = alphabet.chars().collect();
    let n = rng.range(min, max);
    (0..n).map(|_| *rng.pick(&cs)).collect()
}

pub fn synth_title(rng: &mut Rng, alphabet: &str) -> String {
    let words = rng.range(0, 4);
    let mut s = String::new();
    for i in 0..words {
        if i > 0 {
            s.push_str(if rng.chance(1, 5) { *rng.pick(SEPARATORS) } else { " " });
        }
        s.push_str(&synth_word(rng, alphabet, 1, 6));
    }
    s
}

/// Words of 21..=70 letters (1.05x .. 3.5x the stock scratch capacity of 20).
pub fn long_word(rng: &mut Rng, min: usize, max: usize) -> String {
    let alph = *rng.pick(&["abcdefghijklmnopqrstuvwxyz", "aeioubcd", "ab", "straßenbahnhaltestelleäöü", "абвгдеёжзийклмн"]);
    synth_word(rng, alph, min, max)
}

/// Code points chosen to stress normalisation, case mapping, splitting and class lookup.
pub const SOUP: &[char] = &[
    'İ', 'ı', 'ß', 'ẞ', 'ﬁ', 'ǅ', '\u{345}', '\u{308}', '\u{301}', '\u{303}', '\u{327}', '\u{200d}', '\u{feff}', '\u{202e}',
    '\u{10ffff}', '\u{d7ff}', '😀', '\0', '\u{85}', '\u{2028}', '\u{3000}', '\u{a0}', 'Ω', 'ω', 'ς', 'Ё', 'ё', 'й', '٣', '²', '½', 'Ａ', 'ａ',
    'Æ', 'æ', 'Œ', 'œ', 'Ø', 'ø', 'ñ', 'Ñ', 'ç', 'ü', 'Ü', 'a', 'e', 's', 'S', 't', '-', '‑', '…', '‼', '.', ' ', ' ', '\t', '\n', '_', '\'', '"', '$',
];

/// A string of 0..=12 characters from SOUP (titles and queries no real user would type).
pub fn soup(rng: &mut Rng) -> String {
    let n = rng.range(0, 12);
    (0..n).map(|_| any_char(rng)).collect()
}

/// A character: mostly from SOUP, sometimes any code point below U+0530 (ASCII, Latin-1 and its
/// boundaries, Latin Extended, IPA, Greek, Cyrillic), rarely any scalar value at all.
pub fn any_char(rng: &mut Rng) -> char {
    match rng.below(16) {
        0..=3 => char::from_u32(rng.below(0x530) as u32).unwrap_or('a'),
        4 => char::from_u32(rng.below(0x11_0000) as u32).unwrap_or('\u{fffd}'),
        _ => *rng.pick(SOUP),
    }
}

/// Sprinkles a few SOUP characters into a string.
pub fn spice(rng: &mut Rng, s: &str) -> String {
    let mut cs: Vec<char> = s.chars().collect();
    for _ in 0..rng.range(1, 3) {
        let i = rng.below(cs.len() + 1);
        cs.insert(i, any_char(rng));
    }
    cs.into_iter().collect()
}

pub const MARKERS: &[(&str, &str)] = &[
    ("[", "]"), ("", ""), ("<b>", "</b>"), ("{{", "}}"), ("\u{e000}", "\u{e001}"), ("\u{e000}\u{e002}", "\u{e001}"), ("😀", "🏁"),
    ("a", "e"), (" ", " "), ("[", ""), ("", "]"), ("-", "-"),
    // the same characters, split differently between opening and closing marker
    ("[]", ""), ("", "[]"), ("*", ""), ("", "*"), ("<b", "></b>"), ("<b></b>", ""),
];

pub const LIMITS: &[usize] = &[0, 1, 2, 3, 5, 10, 100, 65536];

fn strip_accent(c: char) -> Option<&'static str> {
    Some(match c {
        'ä' | 'á' | 'à' | 'â' | 'ã' => "a",
        'ö' | 'ó' | 'ò' | 'ô' | 'õ' => "o",
        'ü' | 'ú' | 'ù' | 'û' => "u",
        'é' | 'è' | 'ê' | 'ë' => "e",
        'í' | 'ì' | 'î' | 'ï' => "i",
        'ß' => "ss",
        'ç' => "c",
        'ñ' => "n",
        'œ' => "oe",
        'æ' => "ae",
        'ё' => "е",
        _ => return None,
    })
}

fn decompose(c: char) -> Option<&'static str> {
    Some(match c {
        'ä' => "a\u{308}",
        'ö' => "o\u{308}",
        'ü' => "u\u{308}",
        'é' => "e\u{301}",
        'è' => "e\u{300}",
        'ê' => "e\u{302}",
        'á' => "a\u{301}",
        'ó' => "o\u{301}",
        'ñ' => "n\u{303}",
        'ç' => "c\u{327}",
        'ã' => "a\u{303}",
        'ё' => "е\u{308}",
        _ => return None,
    })
}

pub fn decompose_str(s: &str) -> String {
    s.chars().map(|c| decompose(c).map(|d| d.to_string()).unwrap_or_else(|| c.to_string())).collect()
}

/// The typing user: picks a title and types it the way people do.
pub fn type_query(rng: &mut Rng, title: &str) -> String {
    let chars: Vec<char> = title.chars().collect();
    let words: Vec<&str> = title.split(|c: char| !c.is_alphanumeric()).filter(|w| !w.is_empty()).collect();
    let mut q: String = match rng.below(12) {
        // keystroke-by-keystroke prefix of the title
        0 | 1 | 2 => chars[..rng.range(0, chars.len())].iter().collect(),
        // prefix of one word
        3 => {
            if words.is_empty() {
                String::new()
            } else {
                let w: Vec<char> = rng.pick(&words).chars().collect();
                w[..rng.range(1, w.len())].iter().collect()
            }
        }
        // whole title
        4 => title.to_string(),
        // words in another order
        5 => {
            let mut ws = words.clone();
            rng.shuffle(&mut ws);
            ws.truncate(rng.range(1, 3));
            ws.join(" ")
        }
        // dropped separators: "t-shirt" typed "tshirt", "mail box" typed "mailbox"
        6 | 7 => {
            let start = rng.below(words.len().max(1));
            let mut s: String = words.iter().skip(start).take(2).cloned().collect::<Vec<_>>().concat();
            if rng.chance(1, 2) {
                let cs: Vec<char> = s.chars().collect();
                s = cs[..rng.range(cs.len().min(1), cs.len())].iter().collect();
            }
            s
        }
        // a word split in two
        8 => {
            if words.is_empty() {
                String::new()
            } else {
                let w: Vec<char> = rng.pick(&words).chars().collect();
                let k = rng.range(0, w.len());
                let mut s: String = w[..k].iter().collect();
                s.push(' ');
                s.extend(w[k..].iter());
                s
            }
        }
        // one or two words
        9 | 10 => {
            let start = rng.below(words.len().max(1));
            words.iter().skip(start).take(rng.range(1, 2)).cloned().collect::<Vec<_>>().join(" ")
        }
        _ => title.to_string(),
    };
    // typos
    let typos = match rng.below(10) {
        0..=5 => 0,
        6..=8 => 1,
        _ => 2,
    };
    for _ in 0..typos {
        let mut cs: Vec<char> = q.chars().collect();
        if cs.is_empty() {
            break;
        }
        let i = rng.below(cs.len());
        match rng.below(4) {
            0 => cs[i] = *rng.pick(&['a', 'e', 'x', 'z', 's', '1', 'о', 'ö']),
            1 => cs.insert(i, *rng.pick(&['a', 'e', 'x', 'z', 's', 't', 'ь'])),
            2 => {
                cs.remove(i);
            }
            _ => {
                if i + 1 < cs.len() {
                    cs.swap(i, i + 1);
                }
            }
        }
        q = cs.into_iter().collect();
    }
    // spelling variants
    if rng.chance(1, 6) {
        q = q.to_uppercase();
    } else if rng.chance(1, 8) {
        q = q.to_lowercase();
    }
    if rng.chance(1, 6) {
        q = q.chars().map(|c| strip_accent(c).map(|s| s.to_string()).unwrap_or_else(|| c.to_string())).collect();
    } else if rng.chance(1, 8) {
        q = q.chars().map(|c| decompose(c).map(|s| s.to_string()).unwrap_or_else(|| c.to_string())).collect();
    }
    if rng.chance(1, 10) {
        q = format!("{}{}", rng.pick(SEPARATORS), q);
    }
    if rng.chance(1, 10) {
        q.push_str(*rng.pick(SEPARATORS));
    }
    if rng.chance(1, 12) {
        q = q.replace(' ', *rng.pick(SEPARATORS));
    }
    q
}

/// A query without any letter or digit (the library's "empty query").
pub fn separator_query(rng: &mut Rng) -> String {
    if rng.chance(1, 2) {
        return String::new();
    }
    let n = rng.range(1, 4);
    if rng.chance(1, 3) {
        // any characters that are neither letters nor digits (below U+3000)
        return (0..n)
            .map(|_| loop {
                if let Some(c) = char::from_u32(rng.below(0x3000) as u32) {
                    if !c.is_alphanumeric() {
                        break c;
                    }
                }
            })
            .collect();
    }
    (0..n).map(|_| *rng.pick(SEPARATORS)).collect()
}

pub fn unrelated_query(rng: &mut Rng) -> String {
    match rng.below(4) {
        0 => "zzzap".to_string(),
        1 => synth_word(rng, "qwxzj", 1, 7),
        2 => long_word(rng, 21, 45),
        _ => synth_word(rng, "0123456789", 1, 4),
    }
}
