#![recursion_limit = "512"]
//! lsim — deterministic simulation with fault injection for lucid-suggest-core.
//! See /verif/DESIGN.md. Exit codes: 0 held, 1 violation (with a VIOLATION line), 2 harness error.

mod corpus;
mod exec;
mod gen;
mod kernel;
mod minimise;
mod ops;
mod orch;
mod rng;
#[cfg(feature = "hooks")]
mod scratch;
mod sut;

use std::collections::HashMap;

pub const DEFAULT_SEED: u64 = 20260927;

pub fn flavour() -> &'static str {
    if cfg!(feature = "hooks") {
        "checked"
    } else {
        "ship"
    }
}

pub struct Args {
    pub pos: Vec<String>,
    pub opt: HashMap<String, String>,
}

impl Args {
    fn parse() -> Args {
        let mut pos = Vec::new();
        let mut opt = HashMap::new();
        let mut it = std::env::args().skip(1).peekable();
        while let Some(a) = it.next() {
            if let Some(k) = a.strip_prefix("--") {
                let takes_value = it.peek().map(|n| !n.starts_with("--")).unwrap_or(false);
                if takes_value {
                    opt.insert(k.to_string(), it.next().unwrap());
                } else {
                    opt.insert(k.to_string(), "true".to_string());
                }
            } else {
                pos.push(a);
            }
        }
        Args { pos, opt }
    }
    pub fn get(&self, k: &str) -> Option<&str> {
        self.opt.get(k).map(|s| s.as_str())
    }
    pub fn num(&self, k: &str) -> Option<u64> {
        self.get(k).and_then(|s| s.parse().ok())
    }
    pub fn flag(&self, k: &str) -> bool {
        self.opt.contains_key(k)
    }
}

fn main() {
    kernel::install_panic_hook();
    let args = Args::parse();
    let code = std::panic::catch_unwind(std::panic::AssertUnwindSafe(|| real_main(&args))).unwrap_or_else(|_| {
        eprintln!("lsim: harness panic (this is a harness error, not a finding)");
        2
    });
    std::process::exit(code);
}

fn real_main(args: &Args) -> i32 {
    let cmd = args.pos.get(0).map(|s| s.as_str()).unwrap_or("");
    match cmd {
        "check" => orch::cmd_check(args),
        "worker" => orch::cmd_worker(args),
        "exec" => orch::cmd_exec(args),
        "replay" => orch::cmd_replay(args),
        "run" => orch::cmd_run(args),
        "selftest" => orch::cmd_selftest(args),
        "miri-batch" => orch::cmd_miri_batch(args),
        "flavour" => {
            println!("{}", flavour());
            0
        }
        _ => {
            eprintln!("usage: lsim check <ID> [--tier quick|thorough] [--seed N] [--jobs J]\n       lsim replay <file.json>\n       lsim run --prop ID --scenario S --run R [--seed N] [--dump-log] [--dump-ops]\n       lsim selftest determinism [--runs N]");
            2
        }
    }
}
