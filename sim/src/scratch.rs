//! `scratch` scenario (hooks build only): the distance / Jaccard scratch objects are driven
//! directly. One long-lived `DamerauLevenshtein` + `Jaccard<char>` per simulated caller thread
//! (created with the capacity knob) is shared by several clients whose planned comparisons the
//! scheduler interleaves: call order is the schedule. Oracles C16 / C17; C19 rides on the
//! guarded index assertions.

use std::cell::RefCell;
use std::collections::{BTreeSet, HashMap};

use lucid_suggest_core as lib;
use lib::lang::CharClass;
use lib::verif::{DamerauLevenshtein, Jaccard};
use lib::{Lang, TextOwn};

use crate::exec::{Exec, F_LONG_SHORT, F_PREEMPT};
use crate::ops::Op;

thread_local! {
    static INST: RefCell<Option<(DamerauLevenshtein, Jaccard<char>)>> = RefCell::new(None);
}

fn with_inst<R>(f: impl FnOnce(&DamerauLevenshtein, &Jaccard<char>) -> R) -> R {
    INST.with(|cell| {
        let mut slot = cell.borrow_mut();
        if slot.is_none() {
            // `new()` honours the capacity knob
            *slot = Some((DamerauLevenshtein::new(), Jaccard::new()));
        }
        let (d, j) = slot.as_ref().unwrap();
        f(d, j)
    })
}

fn class_of(c: char) -> CharClass {
    match c {
        'c' => CharClass::Consonant,
        'v' => CharClass::Vowel,
        'n' => CharClass::NotAlpha,
        _ => CharClass::Any,
    }
}

/// One-word text with the given per-character classes; `classes.len() == chars.len()` always
/// (that equality is the tokeniser's invariant, C15 — the harness must not break it).
fn word_text(chars: &[char], classes: &[char]) -> TextOwn {
    let mut t = TextOwn::from_vec(chars.to_vec());
    t.classes = (0..chars.len()).map(|i| class_of(*classes.get(i).unwrap_or(&'a'))).collect();
    t
}

fn distance(d: &DamerauLevenshtein, a: &[char], ca: &[char], b: &[char], cb: &[char]) -> f64 {
    distance_fin(d, a, ca, b, cb, true, true)
}

/// `fa` / `fb`: the "finished" flag of each word (a typing user's last word is unfinished). The
/// distance is a function of the two words and their classes; the flag must not matter.
fn distance_fin(d: &DamerauLevenshtein, a: &[char], ca: &[char], b: &[char], cb: &[char], fa: bool, fb: bool) -> f64 {
    let ta = word_text(a, ca).fin(fa);
    if a == b && ca == cb && fa == fb && !a.is_empty() {
        // aliasing is legal: the same word of the same text on both sides
        let v = ta.view(0);
        return d.distance(&v, &v);
    }
    let tb = word_text(b, cb).fin(fb);
    d.distance(&ta.view(0), &tb.view(0))
}

/// Renames the characters of both sequences consistently (first distinct character -> first
/// letter of a private alphabet, ...). Equality pattern, lengths and order are preserved.
fn relabel(a: &[char], b: &[char]) -> (Vec<char>, Vec<char>) {
    let mut map: HashMap<char, char> = HashMap::new();
    let mut next = 0x4e00u32; // CJK ideographs: letters, no case, no folding, nothing else uses them here
    let mut f = |c: &char| -> char {
        *map.entry(*c).or_insert_with(|| {
            let r = char::from_u32(next).unwrap_or('x');
            next += 1;
            r
        })
    };
    let ra: Vec<char> = a.iter().map(&mut f).collect();
    let rb: Vec<char> = b.iter().map(&mut f).collect();
    (ra, rb)
}

fn levenshtein(a: &[char], b: &[char]) -> usize {
    let mut prev: Vec<usize> = (0..=b.len()).collect();
    for i in 1..=a.len() {
        let mut cur = vec![i; b.len() + 1];
        for j in 1..=b.len() {
            let sub = prev[j - 1] + if a[i - 1] == b[j - 1] { 0 } else { 1 };
            cur[j] = sub.min(prev[j] + 1).min(cur[j - 1] + 1);
        }
        prev = cur;
    }
    prev[b.len()]
}

/// Unrestricted Damerau-Levenshtein (transposition of non-adjacent equal pairs allowed,
/// paying for the characters in between), unit costs.
fn damerau_unrestricted(a: &[char], b: &[char]) -> usize {
    let (n, m) = (a.len(), b.len());
    let inf = n + m + 1;
    let mut d = vec![vec![0usize; m + 2]; n + 2];
    d[0][0] = inf;
    for i in 0..=n {
        d[i + 1][0] = inf;
        d[i + 1][1] = i;
    }
    for j in 0..=m {
        d[0][j + 1] = inf;
        d[1][j + 1] = j;
    }
    let mut da: HashMap<char, usize> = HashMap::new();
    for i in 1..=n {
        let mut db = 0usize;
        for j in 1..=m {
            let i1 = *da.get(&b[j - 1]).unwrap_or(&0);
            let j1 = db;
            let cost = if a[i - 1] == b[j - 1] {
                db = j;
                0
            } else {
                1
            };
            let v = (d[i][j] + cost)
                .min(d[i + 1][j] + 1)
                .min(d[i][j + 1] + 1)
                .min(d[i1][j1] + (i - i1 - 1) + 1 + (j - j1 - 1));
            d[i + 1][j + 1] = v;
        }
        da.insert(a[i - 1], i);
    }
    d[n + 1][m + 1]
}

const SHORT: usize = 6;

pub fn step(ex: &mut Exec, ix: usize, op: &Op) {
    match op {
        Op::Dist { t, a, ca, b, cb } => {
            if ex.thread(*t).is_none() {
                return;
            }
            ex.out.executed += 1;
            let a: Vec<char> = a.chars().collect();
            let b: Vec<char> = b.chars().collect();
            // a trailing '~' in a class string marks that word as unfinished (op format stays as it was)
            let fa = !ca.ends_with('~');
            let fb = !cb.ends_with('~');
            let ca: Vec<char> = ca.trim_end_matches('~').chars().collect();
            let cb: Vec<char> = cb.trim_end_matches('~').chars().collect();
            let short = a.len() <= SHORT && b.len() <= SHORT;
            let (a1, ca1, b1, cb1) = (a.clone(), ca.clone(), b.clone(), cb.clone());
            // --- the call under test: long-lived instance of this simulated caller thread
            let res = ex.thread(*t).unwrap().run(move || {
                with_inst(|d, _| {
                    let before = d.dists.borrow().size();
                    let v = distance_fin(d, &a1, &ca1, &b1, &cb1, fa, fb);
                    let m = d.dists.borrow();
                    let after = m.size();
                    let mut cells = Vec::new();
                    if short {
                        for i in 0..=a1.len() {
                            for j in 0..=b1.len() {
                                cells.push(m.get(i + 1, j + 1));
                            }
                        }
                    }
                    (v, cells, before, after)
                })
            });
            let (v, cells, before, after) = match res {
                Ok(x) => x,
                Err(p) => {
                    ex.rec(ix, op, &p.render());
                    if ex.on_prop("C16") && !p.is_hook_assert() {
                        // does a fresh instance panic on this pair too? if not, the value (here: the
                        // panic) depends on what was compared before
                        let (a2, ca2, b2, cb2) = (a.clone(), ca.clone(), b.clone(), cb.clone());
                        if let Ok(fresh) = ex.pristine_ref(move || distance(&DamerauLevenshtein::new(), &a2, &ca2, &b2, &cb2)) {
                            ex.viol("C16", "C16.history", ix, &p.loc, p.render(), format!("{:?} from a fresh instance", fresh));
                        }
                    }
                    ex.panicked(ix, &p);
                    return;
                }
            };
            ex.rec(ix, op, &format!("{:?} cells={}", v, cells.len()));
            let longer = a.len().max(b.len());
            let grew = after > before;
            if grew {
                ex.scratch_grew[*t] = true;
            }
            let stale = ex.scratch_prev_len[*t] > longer;
            if stale && ex.scratch_grew[*t] {
                ex.out.faults[F_LONG_SHORT] += 1;
            }
            if (ex.on_prop("C16") && (stale || grew)) || (ex.on_prop("C19") && stale && ex.scratch_grew[*t]) {
                ex.out.nontrivial = true;
            }
            ex.note_state(&[9, (a.len().min(80) / 8) as u64, (b.len().min(80) / 8) as u64, (ex.scratch_prev_len[*t].min(80) / 8) as u64, grew as u64, ex.capacity().map(|c| c as u64 + 1).unwrap_or(0), (after.min(120) / 12) as u64]);
            ex.scratch_prev_len[*t] = longer;
            if !ex.on_prop("C16") {
                return;
            }
            ex.out.evals += 1;
            // --- reference: fresh instance with the stock capacity on a pristine thread
            let (a2, ca2, b2, cb2) = (a.clone(), ca.clone(), b.clone(), cb.clone());
            let reference = ex.pristine_ref(move || {
                let fresh = DamerauLevenshtein::new();
                let ab = distance(&fresh, &a2, &ca2, &b2, &cb2);
                let ba = distance(&fresh, &b2, &cb2, &a2, &ca2);
                let any_a: Vec<char> = vec!['a'; a2.len()];
                let any_b: Vec<char> = vec!['a'; b2.len()];
                let any = distance(&fresh, &a2, &any_a, &b2, &any_b);
                let mut prefixes = Vec::new();
                if short {
                    for i in 0..=a2.len() {
                        for j in 0..=b2.len() {
                            let own = DamerauLevenshtein::new();
                            prefixes.push(distance(&own, &a2[..i], &ca2[..i.min(ca2.len())], &b2[..j], &cb2[..j.min(cb2.len())]));
                        }
                    }
                }
                (ab, ba, any, prefixes)
            });
            let (ab, ba, any, prefixes) = match reference {
                Ok(x) => x,
                Err(p) => {
                    ex.viol("C16", "C16.reference_panic", ix, &p.loc, format!("{:?}", v), p.render());
                    return;
                }
            };
            let lev = levenshtein(&a, &b) as f64;
            let dl = damerau_unrestricted(&a, &b) as f64;
            let obs = format!("distance({:?},{:?}) = {:?}", a.iter().collect::<String>(), b.iter().collect::<String>(), v);
            if v.to_bits() != ab.to_bits() {
                ex.viol("C16", "C16.history", ix, "", obs, format!("{:?} from a fresh instance: the value must not depend on what was compared before", ab));
            } else if ab.to_bits() != ba.to_bits() {
                ex.viol("C16", "C16.symmetry", ix, "", obs, format!("distance(b,a) = {:?}", ba));
            } else if (v == 0.0) != (a == b) {
                ex.viol("C16", "C16.identity", ix, "", obs, "zero exactly when the words are equal".into());
            } else if !(v >= 0.0) || (v * 2.0).fract() != 0.0 {
                ex.viol("C16", "C16.half_steps", ix, "", obs, "a non-negative multiple of 0.5".into());
            } else if v > lev {
                ex.viol("C16", "C16.upper", ix, "", obs, format!("at most the plain Levenshtein distance {}", lev));
            } else if v < 0.5 * dl {
                ex.viol("C16", "C16.lower", ix, "", obs, format!("at least half the unrestricted Damerau-Levenshtein distance {}", dl));
            } else if v > any {
                ex.viol("C16", "C16.discounts", ix, "", obs, format!("class discounts can only lower it: without classes {:?}", any));
            } else if short {
                let mut k = 0;
                'outer: for i in 0..=a.len() {
                    for j in 0..=b.len() {
                        if cells[k].to_bits() != prefixes[k].to_bits() {
                            ex.viol(
                                "C16",
                                "C16.prefix_cells",
                                ix,
                                "",
                                format!("{} ; cell for prefixes ({},{}) = {:?}", obs, i, j, cells[k]),
                                format!("{:?} = distance of those prefixes computed on their own", prefixes[k]),
                            );
                            break 'outer;
                        }
                        k += 1;
                    }
                }
            }
        }
        Op::Burst { t, a, ca, b, cb, n } => {
            if ex.thread(*t).is_none() {
                return;
            }
            ex.out.executed += 1;
            let a: Vec<char> = a.chars().collect();
            let b: Vec<char> = b.chars().collect();
            let ca: Vec<char> = ca.chars().collect();
            let cb: Vec<char> = cb.chars().collect();
            let n = *n;
            let (a2, ca2, b2, cb2) = (a.clone(), ca.clone(), b.clone(), cb.clone());
            let res = ex.thread(*t).unwrap().run(move || {
                with_inst(|d, _| {
                    let first = distance(d, &a, &ca, &b, &cb);
                    let mut odd: Option<(usize, f64)> = None;
                    for k in 1..n {
                        let v = distance(d, &a, &ca, &b, &cb);
                        if odd.is_none() && v.to_bits() != first.to_bits() {
                            odd = Some((k, v));
                        }
                    }
                    (first, odd)
                })
            });
            match res {
                Ok((first, odd)) => {
                    ex.rec(ix, op, &format!("{:?} x{}", first, n));
                    if ex.on_prop("C16") {
                        ex.out.evals += 1;
                        ex.out.nontrivial = true;
                    }
                    if let Some((k, v)) = odd {
                        ex.viol("C16", "C16.history", ix, "", format!("repetition {} of the same comparison gives {:?}", k, v), format!("{:?} as the first time: the value must not depend on what was compared before", first));
                    }
                }
                Err(p) => {
                    ex.rec(ix, op, &p.render());
                    if ex.on_prop("C16") && !p.is_hook_assert() {
                        if let Ok(fresh) = ex.pristine_ref(move || distance(&DamerauLevenshtein::new(), &a2, &ca2, &b2, &cb2)) {
                            ex.viol("C16", "C16.history", ix, &p.loc, p.render(), format!("{:?} from a fresh instance", fresh));
                        }
                    }
                    ex.panicked(ix, &p);
                }
            }
        }
        Op::Jacc { t, a, b } => {
            if ex.thread(*t).is_none() {
                return;
            }
            ex.out.executed += 1;
            let a: Vec<char> = a.chars().collect();
            let b: Vec<char> = b.chars().collect();
            let (a1, b1) = (a.clone(), b.clone());
            let res = ex.thread(*t).unwrap().run(move || {
                with_inst(|_, j| {
                    // aliasing is legal for shared slices: when one sequence is a prefix (or suffix) of
                    // the other, both arguments are cut from ONE buffer
                    let ab = if !b1.is_empty() && a1.starts_with(&b1) {
                        j.similarity(&a1, &a1[..b1.len()])
                    } else if !b1.is_empty() && a1.ends_with(&b1) {
                        j.similarity(&a1, &a1[a1.len() - b1.len()..])
                    } else if !a1.is_empty() && b1.starts_with(&a1) {
                        j.similarity(&b1[..a1.len()], &b1)
                    } else {
                        j.similarity(&a1, &b1)
                    };
                    // repetitions and order must not matter: a reversed and doubled, b rotated
                    let mut a2: Vec<char> = a1.iter().rev().cloned().collect();
                    a2.extend(a1.iter());
                    let mut b2 = b1.clone();
                    if !b2.is_empty() {
                        b2.rotate_left(1);
                    }
                    let scrambled = j.similarity(&a2, &b2);
                    let ba = j.similarity(&b1, &a1);
                    // a set similarity depends only on which characters are equal: rename them all
                    let (ra, rb) = relabel(&a1, &b1);
                    let renamed = j.similarity(&ra, &rb);
                    (ab, ba, scrambled, renamed)
                })
            });
            let (ab, ba, scrambled, renamed) = match res {
                Ok(x) => x,
                Err(p) => {
                    ex.rec(ix, op, &p.render());
                    if ex.on_prop("C17") && !p.is_hook_assert() {
                        // "for any two character sequences the similarity equals ...": there is no value
                        ex.viol("C17", "C17.panic", ix, &p.loc, format!("similarity({:?},{:?}) -> {}", a.iter().collect::<String>(), b.iter().collect::<String>(), p.render()), "a value in [0,1]".into());
                    }
                    ex.panicked(ix, &p);
                    return;
                }
            };
            ex.rec(ix, op, &format!("{:?}", ab));
            let longer = a.len().max(b.len());
            let stale = ex.scratch_prev_len[*t] > longer;
            let cap = ex.capacity().unwrap_or(20);
            if longer > cap {
                ex.scratch_grew[*t] = true;
            }
            if ex.on_prop("C17") && (stale || longer > cap) {
                ex.out.nontrivial = true;
            }
            if ex.on_prop("C19") && stale && ex.scratch_grew[*t] {
                ex.out.nontrivial = true;
            }
            ex.note_state(&[10, (a.len().min(80) / 8) as u64, (b.len().min(80) / 8) as u64, (ex.scratch_prev_len[*t].min(80) / 8) as u64, ex.scratch_grew[*t] as u64, ex.capacity().map(|c| c as u64 + 1).unwrap_or(0)]);
            ex.scratch_prev_len[*t] = longer;
            if !ex.on_prop("C17") {
                return;
            }
            ex.out.evals += 1;
            let sa: BTreeSet<char> = a.iter().cloned().collect();
            let sb: BTreeSet<char> = b.iter().cloned().collect();
            let inter = sa.intersection(&sb).count();
            let union = sa.union(&sb).count();
            let want = if a.is_empty() && b.is_empty() { 1.0 } else { inter as f64 / union as f64 };
            let (a2, b2) = (a.clone(), b.clone());
            let fresh = ex.pristine_ref(move || Jaccard::<char>::new().similarity(&a2, &b2));
            let obs = format!("similarity({:?},{:?}) = {:?}", a.iter().collect::<String>(), b.iter().collect::<String>(), ab);
            if ab.to_bits() != want.to_bits() {
                ex.viol("C17", "C17.value", ix, "", obs, format!("|A∩B|/|A∪B| = {}/{} = {:?}", inter, union, want));
            } else if ba.to_bits() != ab.to_bits() {
                ex.viol("C17", "C17.symmetry", ix, "", obs, format!("similarity(b,a) = {:?}", ba));
            } else if renamed.to_bits() != ab.to_bits() {
                ex.viol("C17", "C17.relabel", ix, "", obs, format!("{:?} after renaming every character consistently", renamed));
            } else if scrambled.to_bits() != ab.to_bits() {
                ex.viol("C17", "C17.repetition_order", ix, "", obs, format!("with a reversed+doubled and b rotated: {:?}", scrambled));
            } else if !(ab >= 0.0 && ab <= 1.0) {
                ex.viol("C17", "C17.range", ix, "", obs, "within [0,1]".into());
            } else {
                match fresh {
                    Ok(f) if f.to_bits() == ab.to_bits() => {}
                    Ok(f) => ex.viol("C17", "C17.history", ix, "", obs, format!("{:?} from a fresh instance", f)),
                    Err(p) => ex.viol("C17", "C17.reference_panic", ix, &p.loc, obs, p.render()),
                }
            }
        }
        Op::JBurst { t, r, q, fin, n } => {
            if ex.thread(*t).is_none() {
                return;
            }
            ex.out.executed += 1;
            let (r1, q1, fin1, n1) = (r.clone(), q.clone(), *fin, *n);
            let res = ex.thread(*t).unwrap().run(move || {
                let lang = Lang::new();
                let rt = lib::tokenization::tokenize_record(&r1, &lang);
                let qt = lib::tokenize_query(&q1, &lang).fin(fin1);
                if rt.words.is_empty() || qt.words.is_empty() {
                    return (true, None);
                }
                let (rw, qw) = (rt.view(0), qt.view(0));
                let first = lib::verif::jaccard_check(&rw, &qw);
                let mut odd = None;
                for k in 1..n1 {
                    if lib::verif::jaccard_check(&rw, &qw) != first && odd.is_none() {
                        odd = Some(k);
                    }
                }
                (first, odd)
            });
            match res {
                Ok((first, odd)) => {
                    ex.rec(ix, op, &format!("{} x{}", first, n));
                    if ex.on_prop("C17") {
                        ex.out.evals += 1;
                        ex.out.nontrivial = true;
                        if let Some(k) = odd {
                            ex.viol("C17", "C17.prefilter_history", ix, "", format!("repetition {} of the same pre-filter call gives {}", k, !first), format!("{} as the first time", first));
                        }
                    }
                }
                Err(p) => {
                    ex.rec(ix, op, &p.render());
                    ex.panicked(ix, &p);
                }
            }
        }
        Op::JCheck { t, r, q, fin } => {
            if ex.thread(*t).is_none() {
                return;
            }
            ex.out.executed += 1;
            let call = |r: String, q: String, fin: bool| {
                move || {
                    let lang = Lang::new();
                    let rt = lib::tokenization::tokenize_record(&r, &lang);
                    let qt = lib::tokenize_query(&q, &lang).fin(fin);
                    if rt.words.is_empty() || qt.words.is_empty() {
                        return "no-word".to_string();
                    }
                    let plain = lib::verif::jaccard_check(&rt.view(0), &qt.view(0));
                    // the same pair with every character renamed consistently (no tokeniser involved:
                    // both words keep their length, stem, classes and "finished" flag)
                    let (rw, qw) = (rt.view(0), qt.view(0));
                    let (ra, qa) = relabel(rw.chars(), qw.chars());
                    let rt2 = word_text(&ra, &[]).fin(rw.fin);
                    let qt2 = word_text(&qa, &[]).fin(qw.fin);
                    let renamed = lib::verif::jaccard_check(&rt2.view(0), &qt2.view(0));
                    format!("{} renamed={}", plain, renamed)
                }
            };
            let got = match ex.thread(*t).unwrap().run(call(r.clone(), q.clone(), *fin)) {
                Ok(x) => x,
                Err(p) => {
                    ex.rec(ix, op, &p.render());
                    ex.panicked(ix, &p);
                    return;
                }
            };
            ex.rec(ix, op, &got);
            let longer = r.chars().count().max(q.chars().count());
            if ex.on_prop("C17") && (ex.scratch_prev_len[*t] > longer || longer > ex.capacity().unwrap_or(20)) {
                ex.out.nontrivial = true;
            }
            ex.scratch_prev_len[*t] = longer;
            if !ex.on_prop("C17") {
                return;
            }
            ex.out.evals += 1;
            match ex.pristine_ref(call(r.clone(), q.clone(), *fin)) {
                Ok(want) if want == got => {}
                Ok(want) => ex.viol("C17", "C17.prefilter_history", ix, "", format!("jaccard pre-filter({:?},{:?}) = {}", r, q, got), format!("{} on a thread that compared nothing before", want)),
                Err(p) => ex.viol("C17", "C17.reference_panic", ix, &p.loc, got.clone(), p.render()),
            }
            if got == "true renamed=false" || got == "false renamed=true" {
                ex.viol("C17", "C17.prefilter_relabel", ix, "", format!("jaccard pre-filter({:?},{:?}) = {}", r, q, got), "the same verdict after renaming every character consistently (a set similarity sees only which characters are equal)".into());
            }
        }
        Op::Preempt { t, t2, jac, r, q, fin, r2, q2, fin2, at } => {
            if ex.thread(*t).is_none() || ex.thread(*t2).is_none() {
                return;
            }
            ex.out.executed += 1;
            let jac = *jac;
            // one whole call of the word matcher (or of its set pre-filter alone) as a caller makes it
            let call = move |r: String, q: String, fin: bool| {
                move || {
                    let lang = Lang::new();
                    let rt = lib::tokenization::tokenize_record(&r, &lang);
                    let qt = lib::tokenize_query(&q, &lang).fin(fin);
                    if rt.words.is_empty() || qt.words.is_empty() {
                        return "no-word".to_string();
                    }
                    if jac {
                        format!("{}", lib::verif::jaccard_check(&rt.view(0), &qt.view(0)))
                    } else {
                        format!("{:?}", lib::verif::word_match(&rt.view(0), &qt.view(0)))
                    }
                }
            };
            let blocked = crate::kernel::PREEMPT_BLOCKED.load(std::sync::atomic::Ordering::SeqCst);
            let (res1, res2, site) = if *t == *t2 || blocked {
                // one caller thread (or preemption switched off): the two calls one after the other
                let a = ex.thread(*t).unwrap().run(call(r.clone(), q.clone(), *fin));
                let b = ex.thread(*t2).unwrap().run(call(r2.clone(), q2.clone(), *fin2));
                (a, b, None)
            } else {
                let at = *at;
                let inner = call(r.clone(), q.clone(), *fin);
                let first = move || {
                    let mut seen = 0usize;
                    lib::verif::set_sched_hook(Some(Box::new(move |site| {
                        seen += 1;
                        if seen == at {
                            crate::kernel::park_here(site);
                        }
                    })));
                    // the hook is removed even if the call panics
                    struct Unhook;
                    impl Drop for Unhook {
                        fn drop(&mut self) {
                            lib::verif::set_sched_hook(None);
                        }
                    }
                    let _unhook = Unhook;
                    inner()
                };
                let (ta, tb) = (ex.thread(*t).unwrap(), ex.thread(*t2).unwrap());
                ta.run_preempted(first, tb, call(r2.clone(), q2.clone(), *fin2), std::time::Duration::from_secs(5))
            };
            let mut got = Vec::new();
            for res in [res1, res2] {
                match res {
                    Ok(x) => got.push(x),
                    Err(p) => {
                        ex.rec(ix, op, &p.render());
                        ex.panicked(ix, &p);
                        return;
                    }
                }
            }
            // the parking site is not part of the recorded history: whether a thread could be parked
            // depends on process-wide state of the harness (preemption is switched off after a
            // blocked release), the results do not
            ex.rec(ix, op, &format!("{} | {}", got[0], got[1]));
            if site.is_some() {
                ex.out.faults[F_PREEMPT] += 1;
                ex.out.nontrivial = true;
                ex.note_state(&[13, jac as u64, (site == Some("damlev.row")) as u64, (*at).min(6) as u64, (r.chars().count().min(80) / 8) as u64, (r2.chars().count().min(80) / 8) as u64]);
            }
            for (tt, rr, qq) in [(*t, r, q), (*t2, r2, q2)] {
                let longer = rr.chars().count().max(qq.chars().count());
                if longer > ex.capacity().unwrap_or(20) {
                    ex.scratch_grew[tt] = true;
                }
                ex.scratch_prev_len[tt] = longer;
            }
            let prop = if jac { "C17" } else { "C16" };
            if !ex.on_prop(prop) {
                return;
            }
            let oracle = if jac { "C17.prefilter_preempted" } else { "C16.word_match_preempted" };
            for (k, (rr, qq, ff)) in [(r, q, *fin), (r2, q2, *fin2)].into_iter().enumerate() {
                ex.out.evals += 1;
                let what = if k == 0 { "the call parked mid-way" } else { "the call made while another caller thread was parked mid-call" };
                match ex.pristine_ref(call(rr.clone(), qq.clone(), ff)) {
                    Ok(want) if want == got[k] => {}
                    Ok(want) => {
                        ex.viol(prop, oracle, ix, "", format!("{}: ({:?},{:?}) = {}", what, rr, qq, got[k]), format!("{} on a thread that compared nothing before, alone", want));
                        return;
                    }
                    Err(p) => {
                        ex.viol(prop, if jac { "C17.reference_panic" } else { "C16.reference_panic" }, ix, &p.loc, got[k].clone(), p.render());
                        return;
                    }
                }
            }
        }
        Op::WMatch { t, r, q, fin } => {
            if ex.thread(*t).is_none() {
                return;
            }
            ex.out.executed += 1;
            let call = |r: String, q: String, fin: bool| {
                move || {
                    let lang = Lang::new();
                    let rt = lib::tokenization::tokenize_record(&r, &lang);
                    let qt = lib::tokenize_query(&q, &lang).fin(fin);
                    if rt.words.is_empty() || qt.words.is_empty() {
                        return "no-word".to_string();
                    }
                    format!("{:?}", lib::verif::word_match(&rt.view(0), &qt.view(0)))
                }
            };
            let res = ex.thread(*t).unwrap().run(call(r.clone(), q.clone(), *fin));
            let got = match res {
                Ok(x) => x,
                Err(p) => {
                    ex.rec(ix, op, &p.render());
                    ex.panicked(ix, &p);
                    return;
                }
            };
            ex.rec(ix, op, &got);
            let longer = r.chars().count().max(q.chars().count());
            let stale = ex.scratch_prev_len[*t] > longer;
            if longer > ex.capacity().unwrap_or(20) {
                ex.scratch_grew[*t] = true;
            }
            if stale && ex.scratch_grew[*t] {
                ex.out.faults[F_LONG_SHORT] += 1;
                if ex.on_prop("C19") || ex.on_prop("C16") {
                    ex.out.nontrivial = true;
                }
            }
            ex.note_state(&[11, (longer.min(80) / 8) as u64, (ex.scratch_prev_len[*t].min(80) / 8) as u64, ex.scratch_grew[*t] as u64, *fin as u64, ex.capacity().map(|c| c as u64 + 1).unwrap_or(0)]);
            ex.scratch_prev_len[*t] = longer;
            if !ex.on_prop("C16") {
                return;
            }
            ex.out.evals += 1;
            match ex.pristine_ref(call(r.clone(), q.clone(), *fin)) {
                Ok(want) if want == got => {}
                Ok(want) => ex.viol("C16", "C16.word_match_history", ix, "", got, format!("{} on a thread that compared nothing before", want)),
                Err(p) => ex.viol("C16", "C16.reference_panic", ix, &p.loc, got, p.render()),
            }
        }
        _ => {}
    }
}
