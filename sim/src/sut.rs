//! Thin adapter over the real library (no stubs): every function here calls straight into
//! `lucid-suggest-core` and converts results to plain data.

use lucid_suggest_core as lib;
use lib::tokenization::tokenize_record;
use lib::{tokenize_query, Lang, Record, Store, Word};

pub const LANGS: [&str; 7] = ["none", "de", "en", "es", "fr", "pt", "ru"];

pub type Hits = Vec<(usize, String)>;

pub fn make_lang(tag: &str) -> Lang {
    match tag {
        "de" => lib::lang_german(),
        "en" => lib::lang_english(),
        "es" => lib::lang_spanish(),
        "fr" => lib::lang_french(),
        "pt" => lib::lang_portuguese(),
        "ru" => lib::lang_russian(),
        _ => Lang::new(),
    }
}

pub fn new_store(lang: &str) -> Store {
    let mut store = Store::new();
    store.lang = make_lang(lang);
    store
}

pub fn add(store: &mut Store, id: usize, title: &str, rating: usize) {
    let rec = Record::new(id, title, rating, &store.lang);
    store.add(rec);
}

pub fn search(store: &Store, q: &str) -> Hits {
    let query = tokenize_query(q, &store.lang);
    let query = query.to_ref();
    store.search(&query).into_iter().map(|r| (r.id, r.title)).collect()
}

pub fn prepare(store: &Store, q: &str, size: usize) -> Vec<usize> {
    let query = tokenize_query(q, &store.lang);
    let query = query.to_ref();
    let r = store.index.borrow_mut().prepare(&query, size);
    r
}

/// Logical state of one store: everything a user can know about it.
#[derive(Clone, Debug, PartialEq)]
pub struct Model {
    pub lang: String,
    pub recs: Vec<(usize, String, usize)>,
    pub limit: usize,
    pub markers: (String, String),
}

impl Model {
    pub fn new(lang: &str) -> Model {
        Model { lang: lang.to_string(), recs: Vec::new(), limit: 10, markers: ("[".into(), "]".into()) }
    }

    /// A newly constructed store with the same language, records (same order), limit, markers.
    pub fn build(&self) -> Store {
        let mut store = new_store(&self.lang);
        for (id, title, rating) in &self.recs {
            add(&mut store, *id, title, *rating);
        }
        store.limit = self.limit;
        store.highlight_with((&self.markers.0, &self.markers.1));
        store
    }
}

/// Number of words the query tokeniser finds (0 = "empty query" in the library's sense).
pub fn query_words(q: &str, lang: &Lang) -> usize {
    tokenize_query(q, lang).words.len()
}

/// Normalised characters of a title, as the record tokeniser produces them.
pub fn record_chars(title: &str, lang: &Lang) -> Vec<char> {
    tokenize_record(title, lang).chars
}

/// The title as it is returned when nothing is highlighted: the tokeniser's source text
/// (accent sequences composed) without its NUL padding.
pub fn record_plain(title: &str, lang: &Lang) -> String {
    tokenize_record(title, lang).source.iter().filter(|c| **c != '\0').collect()
}

/// Gram set of a text, recomputed by the harness from public tokeniser output only:
/// for every word, its 1- and 2-letter starts (NUL padded) and every window of 3.
pub fn gram_set(words: &[Vec<char>]) -> std::collections::BTreeSet<[char; 3]> {
    let mut set = std::collections::BTreeSet::new();
    for w in words {
        if w.len() >= 1 {
            set.insert([w[0], '\0', '\0']);
        }
        if w.len() >= 2 {
            set.insert([w[0], w[1], '\0']);
        }
        if w.len() >= 3 {
            for i in 0..=(w.len() - 3) {
                set.insert([w[i], w[i + 1], w[i + 2]]);
            }
        }
    }
    set
}

pub fn record_word_chars(title: &str, lang: &Lang) -> Vec<Vec<char>> {
    let t = tokenize_record(title, lang);
    t.words.iter().map(|w| t.chars[w.slice().0..w.slice().1].to_vec()).collect()
}

pub fn query_word_chars(q: &str, lang: &Lang) -> Vec<Vec<char>> {
    let t = tokenize_query(q, lang);
    t.words.iter().map(|w| t.chars[w.slice().0..w.slice().1].to_vec()).collect()
}

pub fn fmt_hits(h: &Hits) -> String {
    let mut s = String::from("[");
    for (i, (id, t)) in h.iter().enumerate() {
        if i > 0 {
            s.push(',');
        }
        s.push_str(&format!("({},{:?})", id, t));
    }
    s.push(']');
    s
}
