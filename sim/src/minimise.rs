//! Shrinks a failing op list while *the same violation key* persists. Every candidate is
//! executed in a child process (`lsim exec`), so that aborts and hangs are survivable and the
//! candidate sees a process in its initial state.

use crate::ops::{Config, Op};

pub struct Candidate {
    pub cfg: Config,
    pub ops: Vec<Op>,
}

/// `test` returns Some(skipped op indices) if the candidate still fails with the target key.
pub fn minimise(cfg: &Config, ops: &[Op], at_op: Option<usize>, budget: usize, test: &mut dyn FnMut(&Config, &[Op]) -> Option<Vec<usize>>) -> (Config, Vec<Op>, usize) {
    let mut cfg = cfg.clone();
    let mut ops: Vec<Op> = ops.to_vec();
    let mut tried = 0usize;
    let t0 = std::time::Instant::now();
    let mut try_it = |cfg: &Config, ops: &[Op], tried: &mut usize| -> Option<Vec<usize>> {
        // candidate budget and a wall-clock cap (the cap only bounds how far shrinking goes)
        if *tried >= budget || t0.elapsed().as_secs() > 90 {
            return None;
        }
        *tried += 1;
        test(cfg, ops)
    };

    // 1. nothing after the failing op matters
    if let Some(k) = at_op {
        if k + 1 < ops.len() {
            let cut = ops[..=k].to_vec();
            if try_it(&cfg, &cut, &mut tried).is_some() {
                ops = cut;
            }
        }
    }
    for _round in 0..3 {
        let before = (ops.len(), weight(&ops));
        // 2. delta debugging on the op list
        let mut chunk = (ops.len() / 2).max(1);
        loop {
            let mut i = 0;
            while i < ops.len() {
                let end = (i + chunk).min(ops.len());
                let mut cand = ops.clone();
                cand.drain(i..end);
                match try_it(&cfg, &cand, &mut tried) {
                    Some(skipped) => {
                        // ops that became invalid (e.g. uses of a store whose create was dropped) go too
                        let mut c2: Vec<Op> = Vec::new();
                        for (k, o) in cand.iter().enumerate() {
                            if !skipped.contains(&k) {
                                c2.push(o.clone());
                            }
                        }
                        if c2.len() < cand.len() && try_it(&cfg, &c2, &mut tried).is_some() {
                            ops = c2;
                        } else {
                            ops = cand;
                        }
                    }
                    None => i = end,
                }
            }
            if chunk == 1 {
                break;
            }
            chunk = (chunk / 2).max(1);
        }
        // 3. simpler configuration
        if cfg.capacity.is_some() {
            let mut c = cfg.clone();
            c.capacity = None;
            if try_it(&c, &ops, &mut tried).is_some() {
                cfg = c;
            }
        }
        if cfg.threads > 1 {
            let mut c = cfg.clone();
            c.threads = 1;
            let cand: Vec<Op> = ops.iter().map(|o| retarget_thread(o)).collect();
            if try_it(&c, &cand, &mut tried).is_some() {
                cfg = c;
                ops = cand;
            }
        }
        // 4. simpler arguments, op by op
        let mut i = 0;
        while i < ops.len() {
            let mut progress = true;
            let mut guard = 0;
            while progress && guard < 200 {
                progress = false;
                guard += 1;
                for simpler in simplifications(&ops[i]) {
                    let mut cand = ops.clone();
                    cand[i] = simpler;
                    if try_it(&cfg, &cand, &mut tried).is_some() {
                        ops = cand;
                        progress = true;
                        break;
                    }
                }
            }
            i += 1;
        }
        if (ops.len(), weight(&ops)) == before || tried >= budget {
            break;
        }
    }
    (cfg, ops, tried)
}

fn weight(ops: &[Op]) -> usize {
    ops.iter().map(|o| o.to_json().to_string().len()).sum()
}

fn retarget_thread(o: &Op) -> Op {
    let mut o = o.clone();
    match &mut o {
        Op::Create { t, .. } | Op::Migrate { t, .. } | Op::FreshThread { t } | Op::Pollute { t, .. } | Op::Dist { t, .. } | Op::Jacc { t, .. } | Op::WMatch { t, .. } | Op::JCheck { t, .. } | Op::Burst { t, .. } | Op::JBurst { t, .. } => *t = 0,
        Op::Preempt { t, t2, .. } => {
            *t = 0;
            *t2 = 0;
        }
        // registry ids are per thread: leave registry ops where they are
        _ => {}
    }
    o
}

fn shrink_string(s: &str) -> Vec<String> {
    let mut out = Vec::new();
    if s.is_empty() {
        return out;
    }
    out.push(String::new());
    let words: Vec<&str> = s.split(' ').collect();
    if words.len() > 1 {
        for k in 0..words.len() {
            let mut w = words.clone();
            w.remove(k);
            out.push(w.join(" "));
        }
    }
    let cs: Vec<char> = s.chars().collect();
    if cs.len() > 1 {
        out.push(cs[..cs.len() / 2].iter().collect());
        out.push(cs[cs.len() / 2..].iter().collect());
    }
    if cs.len() <= 48 {
        for k in 0..cs.len() {
            let mut c = cs.clone();
            c.remove(k);
            out.push(c.into_iter().collect());
        }
        // plainer characters
        for k in 0..cs.len() {
            if !cs[k].is_ascii_lowercase() && cs[k] != ' ' {
                let mut c = cs.clone();
                c[k] = 'a';
                out.push(c.into_iter().collect());
            }
        }
    }
    out
}

fn shrink_num(n: usize) -> Vec<usize> {
    let mut v = Vec::new();
    for c in [0usize, 1, 2, 3, n / 2, n.saturating_sub(1)] {
        if c < n && !v.contains(&c) {
            v.push(c);
        }
    }
    v
}

fn simplifications(op: &Op) -> Vec<Op> {
    let mut out = Vec::new();
    match op {
        Op::Create { s, t, lang } => {
            if lang != "none" {
                out.push(Op::Create { s: *s, t: *t, lang: "none".into() });
            }
        }
        Op::Add { s, id, title, rating } => {
            for t in shrink_string(title) {
                out.push(Op::Add { s: *s, id: *id, title: t, rating: *rating });
            }
            for r in shrink_num(*rating) {
                out.push(Op::Add { s: *s, id: *id, title: title.clone(), rating: r });
            }
        }
        Op::SetLimit { s, limit } => {
            for l in shrink_num(*limit) {
                out.push(Op::SetLimit { s: *s, limit: l });
            }
        }
        Op::SetMarkers { s, l, r } => {
            if l != "[" || r != "]" {
                out.push(Op::SetMarkers { s: *s, l: "[".into(), r: "]".into() });
            }
        }
        Op::Search { s, q, deep } => {
            for t in shrink_string(q) {
                out.push(Op::Search { s: *s, q: t, deep: *deep });
            }
        }
        Op::Prepare { s, q, size } => {
            for t in shrink_string(q) {
                out.push(Op::Prepare { s: *s, q: t, size: *size });
            }
            for z in shrink_num(*size) {
                out.push(Op::Prepare { s: *s, q: q.clone(), size: z });
            }
        }
        Op::Pollute { t, lang, titles, queries } => {
            if lang != "none" {
                out.push(Op::Pollute { t: *t, lang: "none".into(), titles: titles.clone(), queries: queries.clone() });
            }
            for k in 0..titles.len() {
                let mut ts = titles.clone();
                ts.remove(k);
                out.push(Op::Pollute { t: *t, lang: lang.clone(), titles: ts, queries: queries.clone() });
            }
            for k in 0..queries.len() {
                let mut qs = queries.clone();
                qs.remove(k);
                out.push(Op::Pollute { t: *t, lang: lang.clone(), titles: titles.clone(), queries: qs });
            }
            for k in 0..titles.len() {
                for x in shrink_string(&titles[k]).into_iter().take(40) {
                    let mut ts = titles.clone();
                    ts[k] = x;
                    out.push(Op::Pollute { t: *t, lang: lang.clone(), titles: ts, queries: queries.clone() });
                }
            }
            for k in 0..queries.len() {
                for x in shrink_string(&queries[k]).into_iter().take(40) {
                    let mut qs = queries.clone();
                    qs[k] = x;
                    out.push(Op::Pollute { t: *t, lang: lang.clone(), titles: titles.clone(), queries: qs });
                }
            }
        }
        Op::Converge { stores, q } => {
            if stores.len() > 2 {
                for k in 0..stores.len() {
                    let mut st = stores.clone();
                    st.remove(k);
                    out.push(Op::Converge { stores: st, q: q.clone() });
                }
            }
            for t in shrink_string(q) {
                out.push(Op::Converge { stores: stores.clone(), q: t });
            }
        }
        Op::PairCheck { s, q, sel, pairs } => {
            if *pairs > 1 {
                out.push(Op::PairCheck { s: *s, q: q.clone(), sel: *sel, pairs: 1 });
            }
            for t in shrink_string(q) {
                out.push(Op::PairCheck { s: *s, q: t, sel: *sel, pairs: *pairs });
            }
        }
        Op::RCreate { t, id, lang } => {
            if lang != "none" {
                out.push(Op::RCreate { t: *t, id: *id, lang: "none".into() });
            }
        }
        Op::RAdd { t, id, rec, title, rating } => {
            for x in shrink_string(title) {
                out.push(Op::RAdd { t: *t, id: *id, rec: *rec, title: x, rating: *rating });
            }
            for r in shrink_num(*rating) {
                out.push(Op::RAdd { t: *t, id: *id, rec: *rec, title: title.clone(), rating: r });
            }
        }
        Op::RLimit { t, id, limit } => {
            for l in shrink_num(*limit) {
                out.push(Op::RLimit { t: *t, id: *id, limit: l });
            }
        }
        Op::RMarkers { t, id, l, r } => {
            if l != "[" || r != "]" {
                out.push(Op::RMarkers { t: *t, id: *id, l: "[".into(), r: "]".into() });
            }
        }
        Op::RSearch { t, id, q } => {
            for x in shrink_string(q) {
                out.push(Op::RSearch { t: *t, id: *id, q: x });
            }
        }
        Op::Dist { t, a, ca, b, cb } => {
            // drop one character (and its class) at a time, or halve
            let shrink_pair = |w: &str, c: &str| -> Vec<(String, String)> {
                let ws: Vec<char> = w.chars().collect();
                let cs: Vec<char> = c.chars().collect();
                let mut v = Vec::new();
                if ws.len() > 3 {
                    let h = ws.len() / 2;
                    v.push((ws[..h].iter().collect(), cs[..h.min(cs.len())].iter().collect()));
                    v.push((ws[h..].iter().collect(), cs[h.min(cs.len())..].iter().collect()));
                }
                if ws.len() <= 80 {
                    for k in 0..ws.len() {
                        let mut w2 = ws.clone();
                        let mut c2 = cs.clone();
                        w2.remove(k);
                        if k < c2.len() {
                            c2.remove(k);
                        }
                        v.push((w2.into_iter().collect(), c2.into_iter().collect()));
                    }
                }
                v
            };
            for (w, c) in shrink_pair(a, ca) {
                out.push(Op::Dist { t: *t, a: w, ca: c, b: b.clone(), cb: cb.clone() });
            }
            for (w, c) in shrink_pair(b, cb) {
                out.push(Op::Dist { t: *t, a: a.clone(), ca: ca.clone(), b: w, cb: c });
            }
            if ca.chars().any(|c| c != 'a') || cb.chars().any(|c| c != 'a') {
                out.push(Op::Dist { t: *t, a: a.clone(), ca: "a".repeat(ca.chars().count()), b: b.clone(), cb: "a".repeat(cb.chars().count()) });
            }
        }
        Op::Jacc { t, a, b } => {
            for x in shrink_string(a) {
                out.push(Op::Jacc { t: *t, a: x, b: b.clone() });
            }
            for x in shrink_string(b) {
                out.push(Op::Jacc { t: *t, a: a.clone(), b: x });
            }
        }
        Op::JCheck { t, r, q, fin } => {
            for x in shrink_string(r) {
                out.push(Op::JCheck { t: *t, r: x, q: q.clone(), fin: *fin });
            }
            for x in shrink_string(q) {
                out.push(Op::JCheck { t: *t, r: r.clone(), q: x, fin: *fin });
            }
        }
        Op::PSearch { s, s2, q, q2, at } => {
            if *at > 1 {
                out.push(Op::PSearch { s: *s, s2: *s2, q: q.clone(), q2: q2.clone(), at: 1 });
                out.push(Op::PSearch { s: *s, s2: *s2, q: q.clone(), q2: q2.clone(), at: *at / 2 });
            }
            for x in shrink_string(q) {
                out.push(Op::PSearch { s: *s, s2: *s2, q: x, q2: q2.clone(), at: *at });
            }
            for x in shrink_string(q2) {
                out.push(Op::PSearch { s: *s, s2: *s2, q: q.clone(), q2: x, at: *at });
            }
        }
        Op::Preempt { t, t2, jac, r, q, fin, r2, q2, fin2, at } => {
            let mk = |r: &String, q: &String, r2: &String, q2: &String, at: usize| Op::Preempt { t: *t, t2: *t2, jac: *jac, r: r.clone(), q: q.clone(), fin: *fin, r2: r2.clone(), q2: q2.clone(), fin2: *fin2, at };
            if *at > 1 {
                out.push(mk(r, q, r2, q2, 1));
                out.push(mk(r, q, r2, q2, *at - 1));
            }
            for x in shrink_string(r) {
                out.push(mk(&x, q, r2, q2, *at));
            }
            for x in shrink_string(q) {
                out.push(mk(r, &x, r2, q2, *at));
            }
            for x in shrink_string(r2) {
                out.push(mk(r, q, &x, q2, *at));
            }
            for x in shrink_string(q2) {
                out.push(mk(r, q, r2, &x, *at));
            }
        }
        Op::WMatch { t, r, q, fin } => {
            for x in shrink_string(r) {
                out.push(Op::WMatch { t: *t, r: x, q: q.clone(), fin: *fin });
            }
            for x in shrink_string(q) {
                out.push(Op::WMatch { t: *t, r: r.clone(), q: x, fin: *fin });
            }
        }
        _ => {}
    }
    out
}
