//! The only source of choice in the simulator: SplitMix64 -> xoshiro256**.
//! One integer (VERIF_SEED) + scenario tag + run index decide every run.
//! All arithmetic is wrapping: a harness overflow must never look like a finding.

#[derive(Clone)]
pub struct Rng {
    s: [u64; 4],
}

fn splitmix(x: &mut u64) -> u64 {
    *x = x.wrapping_add(0x9E37_79B9_7F4A_7C15);
    let mut z = *x;
    z = (z ^ (z >> 30)).wrapping_mul(0xBF58_476D_1CE4_E5B9);
    z = (z ^ (z >> 27)).wrapping_mul(0x94D0_49BB_1331_11EB);
    z ^ (z >> 31)
}

pub fn mix(a: u64, b: u64) -> u64 {
    let mut x = a ^ b.wrapping_mul(0xD6E8_FEB8_6659_FD93).rotate_left(29);
    splitmix(&mut x)
}

impl Rng {
    pub fn new(seed: u64, scenario_tag: u64, run: u64) -> Rng {
        let mut x = mix(mix(seed, scenario_tag), run);
        let mut s = [0u64; 4];
        for w in s.iter_mut() {
            *w = splitmix(&mut x);
        }
        if s == [0, 0, 0, 0] {
            s[0] = 1;
        }
        Rng { s }
    }

    pub fn from_u64(x: u64) -> Rng {
        Rng::new(x, 0x5EED, 0)
    }

    pub fn next_u64(&mut self) -> u64 {
        let r = self.s[1].wrapping_mul(5).rotate_left(7).wrapping_mul(9);
        let t = self.s[1] << 17;
        self.s[2] ^= self.s[0];
        self.s[3] ^= self.s[1];
        self.s[1] ^= self.s[2];
        self.s[0] ^= self.s[3];
        self.s[2] ^= t;
        self.s[3] = self.s[3].rotate_left(45);
        r
    }

    /// Uniform in 0..n (n > 0). Modulo bias is irrelevant here.
    pub fn below(&mut self, n: usize) -> usize {
        if n == 0 {
            return 0;
        }
        (self.next_u64() % (n as u64)) as usize
    }

    /// Uniform in lo..=hi.
    pub fn range(&mut self, lo: usize, hi: usize) -> usize {
        if hi <= lo {
            return lo;
        }
        lo + self.below(hi - lo + 1)
    }

    pub fn chance(&mut self, num: usize, den: usize) -> bool {
        self.below(den) < num
    }

    pub fn pick<'a, T>(&mut self, xs: &'a [T]) -> &'a T {
        &xs[self.below(xs.len())]
    }

    pub fn shuffle<T>(&mut self, xs: &mut [T]) {
        let n = xs.len();
        for i in (1..n).rev() {
            let j = self.below(i + 1);
            xs.swap(i, j);
        }
    }

    /// Index drawn with the given weights (all-zero weights -> 0).
    pub fn weighted(&mut self, ws: &[usize]) -> usize {
        let total: usize = ws.iter().fold(0usize, |a, &b| a.wrapping_add(b));
        if total == 0 {
            return 0;
        }
        let mut x = self.below(total);
        for (i, &w) in ws.iter().enumerate() {
            if x < w {
                return i;
            }
            x -= w;
        }
        ws.len() - 1
    }
}

/// 64-bit FNV-1a, used for every digest (never for choices).
#[derive(Clone, Copy)]
pub struct Fnv(pub u64);

impl Fnv {
    pub fn new() -> Fnv {
        Fnv(0xcbf2_9ce4_8422_2325)
    }
    pub fn bytes(&mut self, b: &[u8]) {
        for &x in b {
            self.0 ^= x as u64;
            self.0 = self.0.wrapping_mul(0x0000_0100_0000_01B3);
        }
    }
    pub fn str(&mut self, s: &str) {
        self.bytes(s.as_bytes());
        self.bytes(&[0xff]);
    }
    pub fn u64(&mut self, x: u64) {
        self.bytes(&x.to_le_bytes());
    }
}

pub fn fnv_str(s: &str) -> u64 {
    let mut f = Fnv::new();
    f.str(s);
    f.0
}
