#!/bin/sh
# tools/seeds.sh <seed> [<seed> ...]: every registered quick check under other seeds (false-alarm sweep).
# Prints one line per (seed, property); any line not ending in "held" needs attention.
VERIF="${LSIM_VERIF:-/verif}"
for seed in "$@"; do
  for p in C01 C06 C07 C10 C12 C16 C17 C18 C19 C20; do
    out=$(cd "$VERIF" && VERIF_SEED=$seed bin/check $p 2>&1); rc=$?
    echo "seed=$seed $p exit=$rc $(echo "$out" | tail -1 | cut -c1-160)"
    [ $rc -ne 0 ] && echo "$out" | grep -E "VIOLATION|violation of|observed|expected|harness" | head -20
  done
done
