#!/bin/bash
# confirm_mutant.sh <worktree> <patch.diff> <demo.rs> <name> [features]
# Confirms in a scratch worktree: patch applies, crate builds (both ways), the existing suite is
# unchanged (219 pass, 3 known failures), the demo fails with the patch and passes without it.
WT=$1; PATCH=$2; DEMO=$3; NAME=$4; FEAT=$5
export CARGO_NET_OFFLINE=true
cd $WT || exit 2
git checkout -q -- . ; rm -f rust/core/tests/demo_*.rs
git apply --check $PATCH || { echo "$NAME: patch does not apply"; exit 1; }
git apply $PATCH
cd rust/core
B1=$(cargo build --offline 2>&1 | grep -c "^error")
B2=$(cargo build --offline --features lucid_suggest_verif 2>&1 | grep -c "^error")
SUITE=$(cargo test --no-fail-fast --offline 2>&1 | grep -E "^test result" | awk '{p+=$4; f+=$6} END {print p" passed "f" failed"}')
cp $DEMO tests/demo_$NAME.rs
WITH=$(cargo test --offline $FEAT --test demo_$NAME 2>&1 | grep -E "^test result|could not compile|^error: test failed|SIGABRT|signal" | head -3 | tr '\n' ' ')
cd $WT; git checkout -q -- .
cd rust/core
WITHOUT=$(cargo test --offline $FEAT --test demo_$NAME 2>&1 | grep -E "^test result|could not compile" | head -2 | tr '\n' ' ')
rm -f tests/demo_$NAME.rs; find $WT -name '*.snap.new' -delete
echo "$NAME: build_errors=$B1/$B2 suite=[$SUITE] demo_with_patch=[$WITH] demo_without=[$WITHOUT]"
