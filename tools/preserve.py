#!/usr/bin/env python3
"""Runs quick checks against property-PRESERVING changes (patch files): every check must stay
quiet (exit 0). usage: tools/preserve.py <patch.diff> <prop> [<prop> ...]"""
import subprocess, sys, time, os
REPO=os.environ.get("LSIM_REPO","/repo"); VERIF=os.environ.get("LSIM_VERIF","/verif")
def sh(c): return subprocess.run(c, shell=True, stdout=subprocess.PIPE, stderr=subprocess.STDOUT, text=True)
patch=sys.argv[1]; props=sys.argv[2:]
if sh(f"git -C {REPO} status --porcelain --untracked-files=no").stdout.strip():
    print("refusing: repo dirty"); sys.exit(2)
a=sh(f"git -C {REPO} apply {patch}")
if a.returncode!=0: print("patch does not apply:", a.stdout); sys.exit(2)
try:
    for p in props:
        t0=time.time(); r=sh(f"cd {VERIF} && bin/check {p}")
        verdict="quiet" if r.returncode==0 else f"ALARM exit{r.returncode}"
        print(f"{os.path.basename(os.path.dirname(patch))}/{os.path.basename(patch)} {p} {verdict} {time.time()-t0:.0f}s"); sys.stdout.flush()
        if r.returncode!=0: print("\n".join(l[:300] for l in r.stdout.splitlines() if any(k in l for k in ("violation of","observed","expected","VIOLATION","#","lsim:","note")))[:6000])
finally:
    sh(f"git -C {REPO} checkout -- . && git -C {REPO} clean -fdq rust/core/src")
