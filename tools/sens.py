#!/usr/bin/env python3
"""Sensitivity suite: property-breaking (and a few property-PRESERVING) edits of /repo, applied
one at a time to the working tree, checked with the registered quick command (optionally with
fewer runs), and reverted straight afterwards (git checkout). Never commits anything in /repo.

usage: tools/sens.py [name-substring ...] [--runs N] [--full]
Expected outcome per entry: 'caught' (exit 1 + VIOLATION line) for breaking edits,
'quiet' (exit 0) for preserving edits.
"""
import subprocess, sys, time, os, json

REPO = os.environ.get("LSIM_REPO", "/repo")
VERIF = os.environ.get("LSIM_VERIF", "/verif")
CORE = REPO + "/rust/core/src/"

# (name, property, expect, file, old, new)
M = [
 # ---- C10 / C12: stale state
 ("c10-add-keeps-cache", "C10", "caught", "store/store.rs",
  "        *next_ix += 1;\n        *self.top_ixs.borrow_mut() = None;", "        *next_ix += 1;"),
 ("c12-add-keeps-cache", "C12", "caught", "store/store.rs",
  "        *next_ix += 1;\n        *self.top_ixs.borrow_mut() = None;", "        *next_ix += 1;"),
 ("c10-limit-keeps-cache", "C10", "caught", "search/mod.rs",
  ".filter(|ixs| ixs.len() == self.limit.min(self.records.len()))", ""),
 ("c10-clear-keeps-index", "C10", "caught", "store/store.rs",
  "        *self.index.borrow_mut() = TrigramIndex::new();\n", ""),
 ("c10-counts-not-cleared", "C10", "caught", "store/trigram_index.rs",
  "        counts.clear();\n        counts.resize(self.len, 0);", "        counts.resize(self.len, 0);"),
 ("c10-last_i1-not-cleared", "C10", "caught", "matching/damlev/mod.rs",
  "        last_i1.clear();\n", ""),
 ("c10-no-init-after-growth", "C10", "caught", "matching/damlev/matrix.rs",
  "            self.size = size;\n            self.init();", "            self.size = size;"),
 # equivalent mutant (the vectors are drained at the end of every call): must stay quiet
 ("eq-rmatches-not-cleared", "C10", "quiet", "matching/text.rs",
  "        rmatches.clear();\n        qmatches.clear();\n        rmatches.resize", "        rmatches.resize"),
 # ---- C01
 ("c01-revert-score-fix", "C01", "caught", "search/score.rs",
  ".map(|m| m.match_len() as isize - 2 * (m.typos.ceil() as isize))\n        .sum::<isize>()",
  ".map(|m| m.match_len() - 2 * (m.typos.ceil() as usize))\n        .sum::<usize>() as isize"),
 ("c01-tails-wrap", "C01", "caught", "search/score.rs",
  "        .map(|m| m.word_len() - m.match_len())", "        .map(|m| m.match_len() - m.word_len())"),
 # ---- C06
 ("c06-truncate-off-by-one", "C06", "caught", "utils/limitsort.rs",
  "                    sort(buffer);\n                    buffer.truncate(limit);", "                    sort(buffer);\n                    buffer.truncate(limit.saturating_sub(1));"),
 ("c06-cap-2x", "C06", "caught", "store/trigram_index.rs", "size * 10, |(_, count1)", "size * 2, |(_, count1)"),
 # ---- C07
 ("c07-rating-ignored", "C07", "caught", "search/score.rs",
  "    (hit.rating ^ top_bit) as isize\n", "    ((hit.rating / 8) ^ top_bit) as isize\n"),
 ("c12-revert-rating-fix", "C12", "caught", "search/score.rs",
  "    (hit.rating ^ top_bit) as isize\n", "    hit.rating as isize\n"),
 ("c07-first-arrivals-win", "C07", "caught", "utils/limitsort.rs",
  "                    sort(buffer);\n                    buffer.truncate(limit);", "                    buffer.truncate(limit);"),
 # ---- C12
 ("c12-ascending", "C12", "caught", "search/mod.rs", "                    r2.rating\n                        .cmp(&r1.rating)", "                    r1.rating\n                        .cmp(&r2.rating)"),
 ("c12-tiebreak-source", "C12", "caught", "search/mod.rs", "r1.title.chars.cmp(&r2.title.chars)", "r2.title.chars.cmp(&r1.title.chars)"),
 # ---- C16 / C17 / C19
 ("c16-trans-cost", "C16", "caught", "matching/damlev/mod.rs", "((i1 - l1) + (i2 - l2) + 1) as f64", "((i1 - l1) + (i2 - l2)) as f64"),
 ("c16-last_i1-not-cleared", "C16", "caught", "matching/damlev/mod.rs", "        last_i1.clear();\n", ""),
 ("c16-no-init-after-growth", "C16", "caught", "matching/damlev/matrix.rs",
  "            self.size = size;\n            self.init();", "            self.size = size;"),
 ("c17-no-dedup", "C17", "caught", "matching/jaccard/mod.rs", "        set1.dedup();\n", ""),
 ("c17-forget-tail2", "C17", "caught", "matching/jaccard/mod.rs", "    union += set2.len() - i2;\n", ""),
 ("c19-grow-by-len1-only", "C19", "caught", "matching/damlev/matrix.rs", "let size = max!(coefs1.len() + 2, coefs2.len() + 2);", "let size = coefs1.len() + 2;"),
 ("c19-grow-too-late", "C19", "caught", "matching/damlev/matrix.rs", "        if size > self.size {", "        if size > self.size + 1 {"),
 ("c19-counts-short", "C19", "caught", "store/trigram_index.rs", "        counts.resize(self.len, 0);", "        counts.resize(self.len.saturating_sub(1), 0);"),
 # ---- C18
 ("c18-no-gram-dedup", "C18", "caught", "store/trigram_index.rs", "        grams.sort_unstable();\n        grams.dedup();", "        grams.sort_unstable();"),
 ("c18-cap-factor", "C18", "caught", "store/trigram_index.rs", "size * 10, |(_, count1)", "size * 9, |(_, count1)"),
 ("c18-positive-filter", "C18", "caught", "store/trigram_index.rs", "            .filter(|(_, &count)| count > 0)", "            .filter(|(_, &count)| count > 1)"),
 # ---- C20
 ("c20-destroy-one-map", "C20", "caught", "lib.rs", "        buffers.remove(&id);\n", "        buffers.get_mut(&id).map(|b| b.len());\n"),
 ("c20-search-no-clear", "C20", "caught", "lib.rs", "        buffer.clear();\n        for result", "        for result"),
 ("c20-set-limit-truncates", "C20", "caught", "lib.rs", "        store.limit = limit;\n", "        store.limit = limit;\n        buffer.truncate(limit);\n"),
 ("c01-threshold-underflows-text-score", "C01", "caught", "matching/word.rs", "const DAMLEV_THRESHOLD:  f64 = 0.21;", "const DAMLEV_THRESHOLD:  f64 = 0.26;"),
 # ---- property-PRESERVING edits: must stay quiet
 ("ok-threshold-change", "C10", "quiet", "matching/word.rs", "const DAMLEV_THRESHOLD:  f64 = 0.21;", "const DAMLEV_THRESHOLD:  f64 = 0.26;"),
 ("ok-threshold-change-c06", "C06", "quiet", "matching/word.rs", "const DAMLEV_THRESHOLD:  f64 = 0.21;", "const DAMLEV_THRESHOLD:  f64 = 0.26;"),
 ("ok-no-cache-at-all", "C10", "quiet", "search/mod.rs", "        *top_ixs = Some(ixs.clone());", "        let _ = &top_ixs;"),
 ("ok-no-cache-at-all-c12", "C12", "quiet", "search/mod.rs", "        *top_ixs = Some(ixs.clone());", "        let _ = &top_ixs;"),
 ("ok-bigger-initial-capacity", "C16", "quiet", "matching/damlev/mod.rs", "const DEFAULT_CAPACITY: usize = 20;", "const DEFAULT_CAPACITY: usize = 64;"),
 ("ok-score-order-change-c07", "C07", "quiet", "search/score.rs", "    Tails   = 2,\n    Trans   = 3,", "    Tails   = 3,\n    Trans   = 2,"),
]


def run(cmd, **kw):
    return subprocess.run(cmd, shell=True, stdout=subprocess.PIPE, stderr=subprocess.STDOUT, text=True, **kw)


def main():
    args = [a for a in sys.argv[1:] if not a.startswith("--")]
    runs = None
    if "--runs" in sys.argv:
        runs = sys.argv[sys.argv.index("--runs") + 1]
        args = [a for a in args if a != runs]
    dirty = run(f"git -C {REPO} status --porcelain --untracked-files=no").stdout.strip()
    if dirty:
        print("refusing: /repo has uncommitted changes to tracked files:\n" + dirty)
        return 2
    results = []
    for (name, prop, expect, file, old, new) in M:
        if args and not any(a in name for a in args):
            continue
        path = CORE + file
        src = open(path).read()
        if src.count(old) != 1:
            print(f"{name:32} SKIP: pattern occurs {src.count(old)} times in {file}")
            results.append((name, prop, expect, "pattern-missing", 0))
            continue
        t0 = time.time()
        try:
            open(path, "w").write(src.replace(old, new))
            extra = f" --runs {runs}" if runs else ""
            r = run(f"cd {VERIF} && bin/check {prop}{extra}")
            out = r.stdout
            if r.returncode == 1 and "VIOLATION property=" + prop in out:
                got = "caught"
            elif r.returncode == 0:
                got = "quiet"
            else:
                got = f"exit{r.returncode}"
        finally:
            run(f"git -C {REPO} checkout -- .")
        keys = [l.split("[")[1].split("]")[0] for l in out.splitlines() if l.startswith("violation of ") and "[" in l]
        dt = time.time() - t0
        ok = "ok " if got == expect else "BAD"
        print(f"{ok} {name:32} {prop} expect={expect:6} got={got:8} {dt:6.1f}s {','.join(keys)}")
        if got.startswith("exit"):
            print("\n".join(out.splitlines()[-15:]))
        sys.stdout.flush()
        results.append((name, prop, expect, got, round(dt, 1)))
    json.dump(results, open(VERIF + "/target/sens_results.json", "w"), indent=1)
    bad = [r for r in results if r[2] != r[3]]
    print(f"{len(results) - len(bad)} / {len(results)} as expected")
    return 1 if bad else 0


if __name__ == "__main__":
    sys.exit(main())
