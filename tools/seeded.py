#!/usr/bin/env python3
"""Runs the registered checks against the seeded changes under /verif/seeded/<name>/patch.diff:
apply to /repo's working tree, run bin/check <property>, revert straight afterwards.
usage: tools/seeded.py [name-substring ...] [--runs N] [--tier T] [--prop P (override property)]"""
import subprocess, sys, os, json, time, glob
REPO=os.environ.get("LSIM_REPO","/repo")
VERIF=os.environ.get("LSIM_VERIF","/verif")
def sh(c): return subprocess.run(c, shell=True, stdout=subprocess.PIPE, stderr=subprocess.STDOUT, text=True)
def main():
    argv=sys.argv[1:]; opts={}
    for k in ("--runs","--tier","--prop"):
        if k in argv:
            i=argv.index(k); opts[k]=argv[i+1]; del argv[i:i+2]
    if sh(f"git -C {REPO} status --porcelain --untracked-files=no").stdout.strip():
        print("refusing: /repo has uncommitted changes"); return 2
    res=[]
    for d in sorted(glob.glob(VERIF+"/seeded/*/")):
        name=os.path.basename(d.rstrip("/"))
        if argv and not any(a in name for a in argv): continue
        meta=json.load(open(d+"meta.json"))
        prop=opts.get("--prop", meta.get("property", name.split("-")[0]))
        t0=time.time()
        try:
            a=sh(f"git -C {REPO} apply {d}patch.diff")
            if a.returncode!=0:
                print(f"{name}: patch does not apply: {a.stdout}"); continue
            extra="".join(f" {k} {v}" for k,v in opts.items() if k!="--prop")
            r=sh(f"cd {VERIF} && bin/check {prop}{extra}")
        finally:
            sh(f"git -C {REPO} checkout -- . && git -C {REPO} clean -fdq rust/core/src")
        got="caught" if (r.returncode==1 and f"VIOLATION property={prop}" in r.stdout) else ("quiet" if r.returncode==0 else f"exit{r.returncode}")
        keys=[l.split("[")[1].split("]")[0] for l in r.stdout.splitlines() if l.startswith("violation of ") and "[" in l]
        print(f"{name:8} {prop} {got:7} {time.time()-t0:6.1f}s {','.join(keys)}"); sys.stdout.flush()
        if got.startswith("exit"): print("\n".join(r.stdout.splitlines()[-12:]))
        res.append({"name":name,"property":prop,"result":got,"keys":keys,"opts":opts})
    json.dump(res,open(VERIF+"/target/seeded_results.json","w"),indent=1)
main()
